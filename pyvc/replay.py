"""Replay files for refuted obligations (DESIGN §2.5)."""
from __future__ import annotations
import os, json, hashlib, sys


def write_replay(pid, ob, outdir):
    """write the replay file for a refuted obligation; returns (path, reproduced_natively)"""
    fid = ob["id"].split(".path")[0]
    h = hashlib.sha256(fid.encode()).hexdigest()[:10]
    safe = "".join(c if c.isalnum() or c in "._-" else "_" for c in fid.split("::")[-1])[:80]
    path = os.path.join(outdir, f"{pid}-{safe}-{h}.json")
    reproduced = False
    native = None
    try:
        from pyvc import concretize
        native = concretize.try_native(pid, ob)
        reproduced = bool(native and native.get("reproduced"))
    except Exception as e:  # noqa
        native = {"reproduced": False, "error": repr(e)[:500]}
    doc = {"property": pid, "obligation": ob["id"], "kind": ob["kind"], "backend": ob["backend"],
           "detail": ob.get("detail", ""), "solver_model": ob.get("model", ""), "native_replay": native,
           "how_to_replay": f"./check replay {path}",
           "verdict": "violation with a failing input replayed on the real code" if reproduced else
                      "violation: the named obligation is refuted / no longer discharged; no-failing-input-found"}
    with open(path, "w") as f:
        json.dump(doc, f, indent=1)
    return path, reproduced


def main(path):
    doc = json.load(open(path))
    print(json.dumps({k: doc[k] for k in ("property", "obligation", "backend")}, indent=1))
    nat = doc.get("native_replay")
    if nat and nat.get("command"):
        import subprocess
        p = subprocess.run(nat["command"], shell=True, capture_output=True, text=True)
        print(p.stdout[-3000:], p.stderr[-2000:])
        return 1 if "REPRODUCED" in p.stdout else 0
    print("no native replay available for this obligation; solver model follows\n", doc.get("solver_model", "")[:4000])
    return 0
