"""AST-level frame obligations (C16: `modifies nothing`; C05: who may write the ledgers) and immutability of the
classes reachable from SimulationState.  Generated from the real source on every run."""
from __future__ import annotations
import ast, time

KERNEL = [
    "nrel/hive/state/vehicle_state", "nrel/hive/state/entity_state", "nrel/hive/state/simulation_state/simulation_state.py",
    "nrel/hive/state/simulation_state/simulation_state_ops.py", "nrel/hive/state/simulation_state/update/step_simulation.py",
    "nrel/hive/state/simulation_state/update/step_simulation_ops.py", "nrel/hive/state/simulation_state/update/update.py",
    "nrel/hive/state/simulation_state/update/cancel_requests.py", "nrel/hive/state/simulation_state/update/update_requests_from_file.py",
    "nrel/hive/state/simulation_state/update/charging_price_update.py", "nrel/hive/state/driver_state",
    "nrel/hive/dispatcher/instruction/instructions.py", "nrel/hive/dispatcher/instruction_generator/instruction_generator_ops.py",
    "nrel/hive/dispatcher/instruction_generator/dispatcher.py", "nrel/hive/dispatcher/instruction_generator/assignment_ops.py",
    "nrel/hive/model/base.py", "nrel/hive/model/membership.py", "nrel/hive/model/request/request.py", "nrel/hive/model/vehicle/vehicle.py",
    "nrel/hive/model/station", "nrel/hive/model/vehicle/mechatronics/bev.py", "nrel/hive/model/vehicle/mechatronics/ice.py",
    # the power curve / powertrain objects live in env.mechatronics and are shared by every step: their methods (not their
    # load-time builders in __init__.py, which merge config dicts) must be store-free outside the constructor
    "nrel/hive/model/vehicle/mechatronics/powercurve/tabular_powercurve.py", "nrel/hive/model/vehicle/mechatronics/powercurve/powercurve.py",
    "nrel/hive/model/vehicle/mechatronics/powertrain/tabular_powertrain.py", "nrel/hive/model/vehicle/mechatronics/powertrain/powertrain.py",
    "nrel/hive/model/roadnetwork/route.py", "nrel/hive/model/roadnetwork/routetraversal.py", "nrel/hive/model/roadnetwork/linktraversal.py",
    "nrel/hive/model/roadnetwork/link.py", "nrel/hive/util/dict_ops.py", "nrel/hive/util/tuple_ops.py", "nrel/hive/util/time_helpers.py",
    "nrel/hive/model/sim_time.py", "nrel/hive/reporting/vehicle_event_ops.py", "nrel/hive/reporting/driver_event_ops.py",
    "nrel/hive/model/passenger.py", "nrel/hive/model/entity_position.py",
]
MUTATORS = {"append", "extend", "pop", "remove", "clear", "update", "add", "discard", "sort", "insert", "setdefault", "popitem",
            "reverse", "__setitem__", "__delitem__", "__setattr__"}
# the one accepted shape of in-place building: DictOps.merge_dicts' `with old.mutate() as m: ... m.finish()`
ALLOWED = {("nrel/hive/util/dict_ops.py", "DictOps.merge_dicts")}


def in_kernel(path):
    return any(path == k or path.startswith(k.rstrip("/") + "/") for k in KERNEL)


def functions(repo):
    """(path, qualname, FunctionDef, classname) for every function of the kernel files"""
    for path, m in sorted(repo.modules.items()):
        if not in_kernel(path):
            continue
        for node in m.tree.body:
            if isinstance(node, ast.FunctionDef):
                yield path, node.name, node, None
            elif isinstance(node, ast.ClassDef):
                for st in node.body:
                    if isinstance(st, ast.FunctionDef):
                        yield path, f"{node.name}.{st.name}", st, node.name


def locals_created(fn):
    """names bound in the function to values it creates itself (literals, comprehensions, constructor calls)"""
    created = set()
    for n in ast.walk(fn):
        if isinstance(n, (ast.Assign, ast.AnnAssign)):
            val = n.value
            tgts = n.targets if isinstance(n, ast.Assign) else [n.target]
            fresh_call = isinstance(val, ast.Call) and (
                (isinstance(val.func, ast.Name) and val.func.id in ("list", "dict", "set", "asdict"))
                or (isinstance(val.func, ast.Attribute) and val.func.attr in ("copy", "full", "zeros", "array", "ones", "empty")))
            if isinstance(val, (ast.List, ast.Dict, ast.Set, ast.ListComp, ast.DictComp, ast.SetComp)) or fresh_call:
                for t in tgts:
                    if isinstance(t, ast.Name):
                        created.add(t.id)
    return created


MUTABLE_ANN = {"List", "list", "Dict", "dict", "Set", "set", "ndarray", "MutableMapping", "MutableSet", "MutableSequence", "bytearray"}
NUMERIC_CALLS = {"len", "int", "float", "str", "bool", "abs", "round", "sum", "min", "max", "tuple", "frozenset", "ceil", "floor", "sqrt"}


def _mutable_expr(e):
    """does this expression (possibly) evaluate to a mutable container built by a literal / constructor?"""
    if isinstance(e, (ast.List, ast.Dict, ast.Set, ast.ListComp, ast.DictComp, ast.SetComp)):
        return True
    if isinstance(e, ast.Call):
        if isinstance(e.func, ast.Name) and e.func.id in ("list", "dict", "set", "bytearray", "defaultdict", "OrderedDict", "deque"):
            return True
        # x.get(k, <mutable default>) / getattr(o, n, <mutable default>) / dict.setdefault / pop with default
        if isinstance(e.func, (ast.Attribute, ast.Name)) and len(e.args) >= 2 and any(_mutable_expr(a) for a in e.args[1:]):
            return True
    if isinstance(e, ast.IfExp):
        return _mutable_expr(e.body) or _mutable_expr(e.orelse)
    if isinstance(e, ast.BoolOp):
        return any(_mutable_expr(v) for v in e.values)
    return False


def _immutable_expr(e, imm_names):
    if isinstance(e, ast.Constant) or isinstance(e, (ast.Tuple, ast.Compare, ast.JoinedStr)):
        return True
    if isinstance(e, ast.Name):
        return e.id in imm_names
    if isinstance(e, ast.BinOp):
        return _immutable_expr(e.left, imm_names) or _immutable_expr(e.right, imm_names)
    if isinstance(e, ast.UnaryOp):
        return _immutable_expr(e.operand, imm_names)
    if isinstance(e, ast.Call) and isinstance(e.func, ast.Name) and e.func.id in NUMERIC_CALLS:
        return True
    if isinstance(e, ast.IfExp):
        return _immutable_expr(e.body, imm_names) and _immutable_expr(e.orelse, imm_names)
    return False


def augassign_violations(fn, created, params):
    """`x op= e` on a plain name rebinds x when x holds an immutable value and mutates the object in place when it
    holds a list / set / dict / array.  It is accepted when x is a container this activation created itself, refuted
    when some binding of x can yield a mutable container that the activation did not create exclusively (a mutable
    default of .get(), a parameter annotated with a mutable container type), and otherwise accepted under the recorded
    assumption that x holds an immutable value."""
    out = []
    binds = {}
    anns = {a.arg: a.annotation for a in fn.args.posonlyargs + fn.args.args + fn.args.kwonlyargs}
    for n in ast.walk(fn):
        if isinstance(n, (ast.Assign, ast.AnnAssign)) and n.value is not None:
            for t in (n.targets if isinstance(n, ast.Assign) else [n.target]):
                if isinstance(t, ast.Name):
                    binds.setdefault(t.id, []).append(n.value)
    for n in ast.walk(fn):
        if isinstance(n, ast.AugAssign) and isinstance(n.target, ast.Name):
            x = n.target.id
            op = type(n.op).__name__
            if x in created and x not in params:
                continue
            ann = anns.get(x)
            if ann is not None and any(isinstance(m, ast.Name) and m.id in MUTABLE_ANN or isinstance(m, ast.Attribute) and m.attr in MUTABLE_ANN
                                       for m in ast.walk(ann)):
                out.append(f"line {n.lineno}: in-place operator {op} on parameter {x} of mutable container type")
                continue
            if any(_mutable_expr(v) for v in binds.get(x, [])):
                out.append(f"line {n.lineno}: in-place operator {op} on {x}, which may be a mutable container not created "
                           f"exclusively by this call (it may alias a value reachable from an argument)")
    return out


def frame_violations(path, qual, fn):
    """stores into values the activation did not create"""
    out = []
    params = {a.arg for a in fn.args.posonlyargs + fn.args.args + fn.args.kwonlyargs}
    created = locals_created(fn)
    is_init = qual.endswith(".__init__") or qual.endswith(".__new__")
    out += augassign_violations(fn, created, params)
    for n in ast.walk(fn):
        tgts = []
        if isinstance(n, ast.Assign):
            tgts = n.targets
        elif isinstance(n, (ast.AugAssign, ast.AnnAssign)):
            tgts = [n.target]
        elif isinstance(n, ast.Delete):
            tgts = n.targets
        for t in tgts:
            for x in ast.walk(t) if isinstance(t, (ast.Tuple, ast.List)) else [t]:
                if isinstance(x, ast.Attribute):
                    if x.attr == "__cause__":
                        continue                      # exception chaining on an exception created here
                    if is_init and isinstance(x.value, ast.Name) and x.value.id == "self":
                        continue                      # constructor initialising its own new object
                    out.append(f"line {x.lineno}: store to attribute .{x.attr}")
                elif isinstance(x, ast.Subscript):
                    base = x.value
                    while isinstance(base, ast.Subscript):
                        base = base.value        # table[i][j] = ... writes into `table`
                    if isinstance(base, ast.Name) and base.id in created:
                        continue
                    out.append(f"line {x.lineno}: store to subscript of {ast.unparse(base)[:40]}")
        if isinstance(n, ast.Expr) and isinstance(n.value, ast.Call) and isinstance(n.value.func, ast.Attribute):
            f = n.value.func
            if f.attr in MUTATORS:
                base = f.value
                if isinstance(base, ast.Name) and base.id in created and base.id not in params:
                    continue
                if f.attr == "update" and isinstance(base, ast.Name) and base.id in created:
                    continue
                out.append(f"line {n.lineno}: in-place call .{f.attr}() on {ast.unparse(base)[:40]}")
        if isinstance(n, ast.Call):
            fu = ast.unparse(n.func)
            if fu in ("setattr", "object.__setattr__", "delattr") or fu.endswith(".__setattr__"):
                out.append(f"line {n.lineno}: {fu}(...)")
            if isinstance(n.func, ast.Attribute) and n.func.attr == "mutate":
                if (path, qual) not in ALLOWED:
                    out.append(f"line {n.lineno}: Map.mutate() outside DictOps.merge_dicts")
        if isinstance(n, ast.Attribute) and n.attr == "__dict__":
            out.append(f"line {n.lineno}: access to __dict__")
        if isinstance(n, (ast.Global, ast.Nonlocal)):
            out.append(f"line {n.lineno}: global/nonlocal rebinding")
    return out


# stateful objects that are *not* part of the simulation state (documented exemptions)
EXEMPT_CLASSES = {"DictReaderIterator", "ObjectIterator", "DictReaderStepper", "Reporter", "SimTime"}


def frame_obligations(repo, pid="C16"):
    res = []
    for path, qual, fn, cls in functions(repo):
        t0 = time.time()
        if cls in EXEMPT_CLASSES:
            continue
        v = frame_violations(path, qual, fn)
        res.append({"id": f"{pid}.frame.{path}::{qual}", "kind": "frame", "status": "proved" if not v else "refuted",
                    "backend": "ast-frame-rule", "secs": round(time.time() - t0, 5), "props": [pid],
                    "detail": "; ".join(v)[:600]})
    return res


IMMUTABLE_BUILTINS = {"str", "int", "float", "bool", "None", "tuple", "Tuple", "frozenset", "FrozenSet", "Optional", "Map", "immutables",
                      "Union", "UUID", "Callable", "Any", "Type", "bytes", "complex"}
ASSUMED_IMMUTABLE = {"RoadNetwork": "road network objects are assumed not to be mutated after construction (their query "
                                    "methods are store-free; update() returns a new object)",
                     "Path": "pathlib.Path is immutable", "ndarray": "numpy arrays held by powertrain tables are never written after load (assumed)"}


def immutability_obligations(repo, world, root="SimulationState", pid="C16"):
    """every class reachable from the simulation state through field annotations is an immutable value type"""
    res, seen, todo = [], set(), [root]
    while todo:
        cname = todo.pop()
        if cname in seen:
            continue
        seen.add(cname)
        ci = repo.classes.get(cname)
        if ci is None:
            continue
        status, why = "proved", ""
        subclasses = repo.concrete_subclasses(cname)
        if ci.is_enum or ci.is_namedtuple or (ci.is_dataclass and ci.frozen):
            pass
        elif ci.bases and ci.bases[0] == "int":
            pass
        elif subclasses or "ABC" in ci.bases or any(b.endswith("ABC") or b.endswith("Mixin") for b in ci.bases):
            why = "abstract root: members checked individually"
        elif cname in ASSUMED_IMMUTABLE:
            why = "assumed: " + ASSUMED_IMMUTABLE[cname]
        else:
            status, why = "refuted", f"class {cname} is reachable from the simulation state but is neither a NamedTuple nor a frozen dataclass"
        if cname in ASSUMED_IMMUTABLE:
            status, why = "proved", "assumed: " + ASSUMED_IMMUTABLE[cname]
        res.append({"id": f"{pid}.immutable.{cname}", "kind": "immutability", "status": status, "backend": "class-definition-rule",
                    "secs": 0.0, "props": [pid], "detail": why})
        if cname in ASSUMED_IMMUTABLE:
            continue
        for s in subclasses:
            todo.append(s)
        if ci.is_dataclass or ci.is_namedtuple:
            for fn, ann, dflt, owner in repo.fields(cname):
                for n in ast.walk(ann if not isinstance(ann, ast.Constant) or not isinstance(ann.value, str) else ast.parse(ann.value, mode="eval").body):
                    nm = n.id if isinstance(n, ast.Name) else n.attr if isinstance(n, ast.Attribute) else None
                    if nm is None:
                        continue
                    if nm in ("List", "list", "Dict", "dict", "Set", "set", "MutableMapping"):
                        res.append({"id": f"{pid}.immutable.{cname}.{fn}", "kind": "immutability", "status": "refuted",
                                    "backend": "class-definition-rule", "secs": 0.0, "props": [pid],
                                    "detail": f"field {cname}.{fn} has a mutable container type {nm}"})
                    if nm in repo.classes:
                        todo.append(nm)
                    else:
                        r = repo.resolve(repo.classes[owner].path, nm)
                        if r and r[0] == "assign" and isinstance(r[1], (ast.Name, ast.Subscript, ast.Attribute)):
                            for m2 in ast.walk(r[1]):
                                if isinstance(m2, ast.Name) and m2.id in repo.classes:
                                    todo.append(m2.id)
    return res


# ------------------------------------------------------------------ C05: who may write the ledgers
LEDGER_FIELDS = {"balance", "energy_gained", "energy_dispensed"}
LEDGER_WRITERS = {  # the only functions allowed to construct a new value of a ledger field (their contracts pin the amount)
    "Vehicle.send_payment", "Vehicle.receive_payment", "Vehicle.tick_energy_gained", "Station.receive_payment",
    "Station.tick_energy_dispensed", "Vehicle.from_row", "Station.build",
}
LEDGER_CALLERS = {  # the only functions allowed to call a ledger writer (each under contract: C05 / C04)
    "send_payment": {"charge"}, "receive_payment": {"charge", "pick_up_trip"}, "tick_energy_dispensed": {"charge"},
    "tick_energy_gained": {"BEV.add_energy", "ICE.add_energy"},
}


def ledger_obligations(repo, pid="C05"):
    res = []
    for path, m in sorted(repo.modules.items()):
        if "/resources/" in path or path.startswith("nrel/hive/initialization") or path.startswith("nrel/hive/app"):
            continue
        for node in m.tree.body:
            items = []
            if isinstance(node, ast.FunctionDef):
                items.append((node.name, node))
            elif isinstance(node, ast.ClassDef):
                items += [(f"{node.name}.{st.name}", st) for st in node.body if isinstance(st, ast.FunctionDef)]
            for qual, fn in items:
                bad = []
                for n in ast.walk(fn):
                    if isinstance(n, ast.Call):
                        fname = n.func.attr if isinstance(n.func, ast.Attribute) else n.func.id if isinstance(n.func, ast.Name) else ""
                        if fname in ("replace", "_replace") or (fname and fname[0].isupper()):
                            for kw in n.keywords:
                                if kw.arg in LEDGER_FIELDS and qual not in LEDGER_WRITERS and fname in ("replace", "_replace", "Vehicle", "Station"):
                                    bad.append(f"line {n.lineno}: writes ledger field {kw.arg}")
                        if fname in LEDGER_CALLERS and qual not in LEDGER_CALLERS[fname] and not qual.endswith(fname):
                            bad.append(f"line {n.lineno}: calls ledger writer {fname}()")
                if bad or any(isinstance(n, ast.Call) for n in ast.walk(fn)):
                    res.append({"id": f"{pid}.ledger_frame.{path}::{qual}", "kind": "frame", "status": "proved" if not bad else "refuted",
                                "backend": "ast-frame-rule", "secs": 0.0, "props": [pid], "detail": "; ".join(bad)[:500]})
    return res
