"""Concretisation of solver models into real hive objects and native replay (placeholder: filled in per layer)."""


def try_native(pid, ob):
    return None
