"""Native replay of refuted obligations against the real code in /repo (DESIGN 2.5).

The verifier's counter-models are over symbolic states (finite-universe interpretations of ids and cells); they are
not concretised field by field.  Instead a refuted obligation triggers a *native search for a failing input* driven by
the obligation: (1) if the obligation is one that a recorded defect used to fail, that defect's demonstration script is
run against the current tree; (2) otherwise the property's native oracle is run over seeded random scenarios built
through the public API (findings/native_search.py).  A hit is a concrete failing input (script + seed) that anyone can
re-run; no hit leaves the violation reported with `no-failing-input-found`."""
from __future__ import annotations
import os, re, json, subprocess

ROOT = os.path.dirname(os.path.dirname(os.path.abspath(__file__)))
PY = "/venv/bin/python"
REPO = os.environ.get("HIVE_REPO", "/repo")


def _run(cmd, timeout=600):
    try:
        p = subprocess.run(cmd, capture_output=True, text=True, timeout=timeout, cwd=REPO,
                           env=dict(os.environ, PYTHONPATH=REPO))
        return p.stdout[-3000:], p.returncode
    except Exception as e:  # noqa
        return repr(e), 0


def try_native(pid, ob):
    # (0) a bounded stand-in that failed carries its own concrete failing input and command
    if ob.get("kind") == "bounded" and ob.get("command") and "REPRODUCED" in ob.get("detail", ""):
        return {"reproduced": True, "how": "bounded exhaustive run of the real function", "command": ob["command"], "output": ob.get("detail", "")[-1500:]}
    findings = []
    p = os.path.join(ROOT, "known_findings.json")
    if os.path.exists(p):
        findings = json.load(open(p)).get("findings", [])
    # (1) a defect that used to fail this obligation
    for f in findings:
        if f.get("property") == pid and f.get("demo") and re.search(f["obligation"], ob["id"]):
            script = os.path.join(ROOT, f["demo"])
            out, rc = _run([PY, script])
            if "REPRODUCED" in out:
                return {"reproduced": True, "how": f"demonstration of {f['id']} re-run on the current tree", "command": f"cd /repo && {PY} {script}",
                        "output": out[-1500:]}
    # (2) property oracle over seeded random scenarios
    seed = int(os.environ.get("VERIF_SEED", "0") or 0)
    script = os.path.join(ROOT, "findings", "native_search.py")
    out, rc = _run([PY, script, pid, str(seed), "200"])
    if "REPRODUCED" in out:
        return {"reproduced": True, "how": "native oracle over seeded random scenarios (public API)",
                "command": f"cd /repo && {PY} {script} {pid} {seed} 200", "output": out[-1500:]}
    return {"reproduced": False, "how": "no failing input found by the native search", "command": f"cd /repo && {PY} {script} {pid} {seed} 200",
            "output": out[-600:]}
