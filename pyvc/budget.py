"""Deterministic solver budgets.

Every solver query is bounded by a *resource limit* (z3 `rlimit`, cvc5 `--rlimit`): a count of solver steps that does
not depend on how busy the machine is, so `not discharged within the budget` is a reproducible verdict.  A wall-clock
limit (WALL_FACTOR x the nominal time of the budget) remains as a safety net only; when it fires the obligation is
reported as `timeout`, which is never turned into a violation (exit 2: undecided)."""
import os, time

SCALE = float(os.environ.get("VERIF_RL_SCALE", "1") or 1)
WALL_FACTOR = float(os.environ.get("VERIF_WALL_FACTOR", "16") or 16)
# resource budgets per stage for the quick tier (timeout_ms = 10000); other tiers scale linearly with timeout_ms.
# Calibrated on the unchanged tree (tools/rl_calibrate.sh): largest consumption of a *discharged* query per stage was
#   ematch 9.7M, pointwise 0.9M, full 5.7M, feasible 3.5M; z3 5.1 runs 0.04 .. 1 M units/s on these queries.
STAGE_RL = {"ematch": 14_000_000, "pointwise.d0": 3_000_000, "pointwise.d2": 4_000_000, "pointwise.d4": 8_000_000,
            "pointwise.dNone": 12_000_000, "finite": 3_000_000, "full": 12_000_000, "cvc5": 30_000_000}
# CPU-time caps (seconds, quick tier) for queries whose cost the solver's resource counter does not see; CPU time, unlike
# wall-clock time, does not depend on how many other processes share the machine.  Largest CPU time of a discharged
# query on the unchanged tree: 20 s (ematch), < 1 s (other stages).
STAGE_CPU = {"ematch": 60, "pointwise.d0": 15, "pointwise.d2": 20, "pointwise.d4": 30, "pointwise.dNone": 40, "finite": 15,
             "full": 40, "cvc5": 30, "feasible": 60, "entails": 60}
FIXED_RL = {"feasible": 12_000_000, "entails": 12_000_000}      # path feasibility / entailment: not scaled by tier
SLOWEST_RATE = 40_000     # units per second assumed for the wall-clock safety net
LOG = os.environ.get("VERIF_RL_LOG")
WALL_HIT = [0]        # number of wall-clock safety-net hits since the last reset (per process)


def stage_key(stage):
    if stage.startswith("pointwise"):
        return "pointwise." + stage.split(".")[-1]
    if stage.startswith("finite"):
        return "finite"
    return stage


def rl(ms, stage="full"):
    k = stage_key(stage)
    if k in FIXED_RL:
        return int(FIXED_RL[k] * SCALE)
    return max(1000, int(STAGE_RL.get(k, STAGE_RL["full"]) * (ms / 10000.0) * SCALE))


def cpu_s(ms, stage="full"):
    k = stage_key(stage)
    base = STAGE_CPU.get(k, 40)
    if k in FIXED_RL:
        return int(base * SCALE)
    return max(2, int(base * (ms / 10000.0) * SCALE))


def wall_ms(ms, stage="full"):
    """wall-clock safety net (never a verdict): the CPU cap on a machine with WALL_FACTOR times more work than cores"""
    return int(cpu_s(ms, stage) * 1000 * WALL_FACTOR)


def children_cpu():
    import resource
    r = resource.getrusage(resource.RUSAGE_CHILDREN)
    return r.ru_utime + r.ru_stime


def stopped_by_wall_clock(cpu_before, ms, stage, t0=None):
    """after a solver subprocess stopped without an answer: True only if the wall-clock limit had (nearly) elapsed and the
    process had not received its CPU budget (machine too busy: no verdict); an exhausted resource limit or CPU cap is a
    reproducible `budget exhausted`"""
    if t0 is not None and (time.time() - t0) * 1000 < wall_ms(ms, stage) * 0.9:
        return False
    return (children_cpu() - cpu_before) < cpu_s(ms, stage) * 0.9


def limit_cpu(seconds):
    """preexec_fn for solver subprocesses: the kernel stops the process after `seconds` of CPU time"""
    def f():
        import resource
        resource.setrlimit(resource.RLIMIT_CPU, (int(seconds), int(seconds) + 2))
    return f


def wall_hit(stage=""):
    WALL_HIT[0] += 1
    log(stage, "WALL-TIMEOUT", 0, 0)


def reset():
    WALL_HIT[0] = 0


def log(stage, status, used, secs, limit=0):
    if LOG:
        try:
            with open(LOG, "a") as f:
                f.write(f"{stage}\t{status}\t{used}\t{limit}\t{secs:.3f}\n")
        except OSError:
            pass


_last = [0]


def inproc_check(solver, ms, stage):
    """solver.check() under rlimit(ms) with the wall-clock safety net; returns the z3 result"""
    import z3
    lim = rl(ms, stage)
    wall = wall_ms(ms, stage)
    solver.set("rlimit", lim)
    solver.set("timeout", wall)
    t0 = time.time()
    c0 = time.process_time()
    try:
        r = solver.check()
    except z3.Z3Exception:
        r = z3.unknown
    dt = time.time() - t0
    cpu = time.process_time() - c0
    used = 0
    if LOG:
        try:
            st = solver.statistics()
            for i, k in enumerate(st.keys()):
                if k == "rlimit count":
                    used = st.get_key_value(k) - _last[0]
                    _last[0] = st.get_key_value(k)
        except Exception:  # noqa
            pass
    if r == z3.unknown:
        why = ""
        try:
            why = solver.reason_unknown()
        except Exception:  # noqa
            pass
        if dt * 1000 >= wall * 0.95 and cpu < cpu_s(ms, stage) * 0.9:
            # only the wall-clock limit can have stopped the query (z3 reports `canceled` for an exhausted resource limit
            # as well, so the reason text is not used), and it did so before the query received its CPU budget: the
            # machine was too busy and nothing is concluded
            wall_hit(stage)
    log(stage, str(r), used, dt, lim)
    return r
