"""Deterministic solver budgets.

Every solver query is bounded by a *resource limit* (z3 `rlimit`, cvc5 `--rlimit`): a count of solver steps that does
not depend on how busy the machine is, so `not discharged within the budget` is a reproducible verdict.  A wall-clock
limit (WALL_FACTOR x the nominal time of the budget) remains as a safety net only; when it fires the obligation is
reported as `timeout`, which is never turned into a violation (exit 2: undecided)."""
import os, time

SCALE = float(os.environ.get("VERIF_RL_SCALE", "1") or 1)
WALL_FACTOR = float(os.environ.get("VERIF_WALL_FACTOR", "8") or 8)
# resource budgets per stage for the quick tier (timeout_ms = 10000); other tiers scale linearly with timeout_ms.
# Calibrated on the unchanged tree (tools/rl_calibrate.sh): largest consumption of a *discharged* query per stage was
#   ematch 9.7M, pointwise 0.9M, full 5.7M, feasible 3.5M; z3 5.1 runs 0.04 .. 1 M units/s on these queries.
STAGE_RL = {"ematch": 14_000_000, "pointwise.d0": 3_000_000, "pointwise.d2": 4_000_000, "pointwise.d4": 8_000_000,
            "pointwise.dNone": 12_000_000, "finite": 3_000_000, "full": 12_000_000, "cvc5": 30_000_000}
FIXED_RL = {"feasible": 12_000_000, "entails": 12_000_000}      # path feasibility / entailment: not scaled by tier
SLOWEST_RATE = 40_000     # units per second assumed for the wall-clock safety net
LOG = os.environ.get("VERIF_RL_LOG")
WALL_HIT = [0]        # number of wall-clock safety-net hits since the last reset (per process)


def stage_key(stage):
    if stage.startswith("pointwise"):
        return "pointwise." + stage.split(".")[-1]
    if stage.startswith("finite"):
        return "finite"
    return stage


def rl(ms, stage="full"):
    k = stage_key(stage)
    if k in FIXED_RL:
        return int(FIXED_RL[k] * SCALE)
    return max(1000, int(STAGE_RL.get(k, STAGE_RL["full"]) * (ms / 10000.0) * SCALE))


def wall_ms(ms, stage="full"):
    """wall-clock safety net (never a verdict): generous enough for a 10x overloaded machine"""
    return int(max(60_000, 1000.0 * rl(ms, stage) / SLOWEST_RATE) * (WALL_FACTOR / 8.0))


def wall_hit(stage=""):
    WALL_HIT[0] += 1
    log(stage, "WALL-TIMEOUT", 0, 0)


def reset():
    WALL_HIT[0] = 0


def log(stage, status, used, secs, limit=0):
    if LOG:
        try:
            with open(LOG, "a") as f:
                f.write(f"{stage}\t{status}\t{used}\t{limit}\t{secs:.3f}\n")
        except OSError:
            pass


_last = [0]


def inproc_check(solver, ms, stage):
    """solver.check() under rlimit(ms) with the wall-clock safety net; returns the z3 result"""
    import z3
    lim = rl(ms, stage)
    wall = wall_ms(ms, stage)
    solver.set("rlimit", lim)
    solver.set("timeout", wall)
    t0 = time.time()
    try:
        r = solver.check()
    except z3.Z3Exception:
        r = z3.unknown
    dt = time.time() - t0
    used = 0
    if LOG:
        try:
            st = solver.statistics()
            for i, k in enumerate(st.keys()):
                if k == "rlimit count":
                    used = st.get_key_value(k) - _last[0]
                    _last[0] = st.get_key_value(k)
        except Exception:  # noqa
            pass
    if r == z3.unknown:
        why = ""
        try:
            why = solver.reason_unknown()
        except Exception:  # noqa
            pass
        if "resource" not in why and ("timeout" in why or "cancel" in why or dt * 1000 >= wall * 0.95):
            wall_hit(stage)
    log(stage, str(r), used, dt, lim)
    return r
