"""Run all obligations of one property, write evidence, replay files, and the verdict lines."""
from __future__ import annotations
import sys, os, json, time, hashlib, re, importlib
import multiprocessing as mp

ROOT = os.path.dirname(os.path.dirname(os.path.abspath(__file__)))
EVID = os.path.join(ROOT, "evidence")
REPLAYS = os.path.join(ROOT, "replays")

BASE_TRUSTED = [
    "pyvc encoding of Python semantics (DESIGN §2.4): int=Z, float=R (machine arithmetic treated as mathematical), "
    "str ids as an uninterpreted sort with a strict total order, structural == on NamedTuple/frozen dataclass, "
    "immutables.Map/frozenset as finite maps/sets",
    "z3 4.x/5.x and cvc5 as decision procedures",
    "text of f-strings / log messages / exception messages dropped; uuid4() is a fresh value",
]


def clause_id(oid):
    """stable id of the contract clause an obligation belongs to (path / call ordinals / line numbers removed)"""
    oid = re.sub(r"\.path\d+(@\S+)?$", "", oid)
    oid = re.sub(r"\.call\d+@[^.]+\.", ".call.", oid)
    oid = re.sub(r"@\d+", "", oid)
    return oid


def load_baseline(pid):
    p = os.path.join(ROOT, "baseline", f"{pid}.json")
    if not os.path.exists(p):
        return None
    return set(json.load(open(p))["proved_clauses"])


def known_findings():
    p = os.path.join(ROOT, "known_findings.json")
    if not os.path.exists(p):
        return []
    return json.load(open(p)).get("findings", [])


def run_property(pid, tier, jobs, verbose=False, record_baseline=False):
    t0 = time.time()
    seed = int(os.environ.get("VERIF_SEED", "0") or 0)
    from pyvc import cli
    os.makedirs(EVID, exist_ok=True)
    os.makedirs(REPLAYS, exist_ok=True)
    timeout_ms = 10000 if tier == "quick" else 30000      # thorough: 3x the resource budgets
    try:
        repo, world, ex, R = cli.load()
    except Exception as e:  # noqa
        import traceback
        print("CHECKER-ERROR: cannot load contracts:", traceback.format_exc()[-1500:])
        return 3
    try:
        pmod = importlib.import_module(f"props.{pid}")
    except ModuleNotFoundError:
        pmod = None
    guards = []
    # engine guard, run alongside: CPython cross-check of the encoding of Python semantics (tools/xcheck.py)
    import subprocess as _sp
    try:
        xproc = _sp.Popen(["python3-vt", os.path.join(ROOT, "tools", "xcheck.py")], stdout=_sp.PIPE, stderr=_sp.STDOUT, text=True,
                          env={k: v for k, v in os.environ.items() if k != "HIVE_REPO"})
    except Exception:  # noqa
        xproc = None
    keys = cli.functions_for(R, pid)
    if pmod is not None and hasattr(pmod, "extra_functions"):
        keys += [k for k in pmod.extra_functions(R) if k not in keys]
    opaque = sorted(k for k, s in R.specs.items() if getattr(s, "opaque", False))
    jobs_list = [(k, timeout_ms, opaque) for k in keys]
    fn_reports = []
    # every function is verified in a process of its own, forked from this (loaded) process: the solver context a query
    # runs in does not depend on which other functions a pool worker happened to verify before it
    cli._W["ctx"] = (repo, world, ex, R)
    ctx = mp.get_context("fork")
    if jobs_list:
        with ctx.Pool(min(jobs, max(1, len(jobs_list))), maxtasksperchild=1) as pool:
            fn_reports = pool.map(cli._verify_one, jobs_list, chunksize=1)
    # obligations that exhausted their budget are retried once, one process per obligation, with twice the budget
    retry = []
    for fi, fr in enumerate(fn_reports):
        if fr["status"] != "ok":
            continue
        for oi, o in enumerate(fr["obligations"]):
            if o["status"] in ("unknown", "timeout"):
                retry.append((fi, oi))
    retry = retry[:32]
    if retry:
        rjobs = [(fn_reports[fi]["key"], timeout_ms * 2, opaque, {oi}) for fi, oi in retry]
        with ctx.Pool(min(jobs, len(rjobs)), maxtasksperchild=1) as pool:
            redone = pool.map(cli._verify_one, rjobs, chunksize=1)
        for (fi, oi), fr2 in zip(retry, redone):
            obs2 = fr2.get("obligations", [])
            if fr2.get("status") == "ok" and oi < len(obs2) and obs2[oi]["status"] != "skipped" \
                    and obs2[oi]["id"] == fn_reports[fi]["obligations"][oi]["id"]:
                fn_reports[fi]["obligations"][oi] = obs2[oi]
    # bounded stand-in for functions that left the supported subset (a loop / fold over a symbolic sequence without an
    # invariant, typically after a refactor): the same contract is checked with every sequence argument fixed to 0..K
    # elements, so the loops unroll. A refuted clause there is a genuine counter-model of the contract and is reported as a
    # violation; clauses that hold are listed under `bounded` and the function stays *undecided* (never counted as proved).
    bounded_unroll, bounded_info = [], []
    K = 3 if tier == "quick" else 5
    oor = [fr["key"] for fr in fn_reports if fr["status"] == "out-of-reach"]
    if oor:
        bjobs = [(k_, timeout_ms, opaque, None, n_) for k_ in oor for n_ in range(K + 1)]
        with ctx.Pool(min(jobs, len(bjobs)), maxtasksperchild=1) as pool:
            bres = pool.map(cli._verify_one, bjobs, chunksize=1)
        for (k_, _, _, _, n_), fr2 in zip(bjobs, bres):
            bad = [o for o in fr2.get("obligations", []) if o["status"] == "refuted" and pid in o.get("props", [pid])]
            for o in bad:
                o2 = dict(o)
                o2["id"] = o["id"].replace("::", f"::bounded_unrolling_len{n_}.", 1) if "::" in o["id"] else f"bounded_unrolling_len{n_}." + o["id"]
                o2["kind"] = "bounded"
                o2["backend"] = o["backend"] + f"+unrolled(len={n_})"
                o2["detail"] = (f"function is outside the supported subset as written; with every sequence argument fixed to {n_} "
                                f"element(s) the loops unroll and this clause of its contract is refuted. " + o.get("detail", ""))
                bounded_unroll.append(o2)
            bounded_info.append({"what": f"{k_}: contract checked with sequence arguments of length {n_} (loops unrolled)",
                            "bound": f"length = {n_}", "hit": bool(bad), "output": fr2.get("status", "") + " " + fr2.get("detail", "")[:200],
                            "secs": fr2.get("secs", 0)})
    # property-specific extra obligations (lemmas, AST-level frame scans, Lean lemmas ...)
    extra = []
    if pmod is not None and hasattr(pmod, "extra_obligations"):
        try:
            extra = pmod.extra_obligations(repo, world, ex, R, tier, timeout_ms)
        except Exception:  # noqa
            import traceback
            extra = [{"id": f"{pid}.extra", "kind": "lemma", "status": "error", "backend": "-", "secs": 0,
                      "props": [pid], "detail": traceback.format_exc()[-1500:]}]
    if xproc is not None:
        try:
            xout, _ = xproc.communicate(timeout=1800)
            xlines = xout.strip().splitlines()
            xok = xproc.returncode == 0 and xlines and xlines[-1].startswith("xcheck:") and " 0 disagreements" in xlines[-1]
            guards.append({"guard": "CPython cross-check of the encoding (tools/xcheck.py)", "ok": bool(xok),
                           "detail": (xlines[-1] if xlines else "no output")[:300] if xok else "\n".join(xlines[-8:])[:1500]})
        except Exception as e_:  # noqa
            xproc.kill()
            guards.append({"guard": "CPython cross-check of the encoding (tools/xcheck.py)", "ok": False, "detail": repr(e_)[:300]})
    # thorough tier: bounded native exploration with the property's oracle (never counted as proved; a hit is a real
    # failing input on the real code)
    bounded = []
    if tier == "thorough":
        try:
            import subprocess
            script = os.path.join(ROOT, "findings", "native_search.py")
            p_ = subprocess.run(["/venv/bin/python", script, pid, str(seed), "1500"], capture_output=True, text=True, timeout=3000,
                                cwd=os.environ.get("HIVE_REPO", "/repo"))
            out_ = p_.stdout.strip().splitlines()
            if out_ and "no native oracle" not in p_.stdout:
                hit = any(l.startswith("REPRODUCED") for l in out_)
                bounded.append({"what": "findings/native_search.py: random instruction/update/tick scenarios through the public API, property oracle after every operation",
                                "bound": "1500 scenarios x 12 operations, seed " + str(seed), "hit": hit, "output": "\n".join(out_[-3:])[:600]})
                if hit:
                    extra_hit = {"id": f"{pid}.bounded_native_search", "kind": "bounded", "status": "refuted", "backend": "native-oracle",
                                 "secs": 0.0, "props": [pid], "detail": "\n".join(out_[-3:])[:800]}
                else:
                    extra_hit = None
            else:
                extra_hit = None
        except Exception as e_:  # noqa
            extra_hit = None
    else:
        extra_hit = None
    # ---- classify
    obs = []
    fn_summ = []
    unreachable, errors = [], []
    for fr in fn_reports:
        fn_summ.append({"function": fr["key"], "src_sha": fr["src_hash"], "paths": fr["paths"], "raise_paths": fr["raise_paths"],
                        "status": fr["status"], "secs": fr["secs"], "assumed_interfaces": fr.get("assumed_interfaces", [])})
        if fr["status"] == "out-of-reach":
            unreachable.append((fr["key"], fr["detail"]))
        elif fr["status"] == "error":
            errors.append((fr["key"], fr["detail"]))
        for o in fr["obligations"]:
            if o["kind"] == "ensures" or o["kind"] == "no-raise":
                if pid not in o["props"]:
                    continue
            obs.append(o)
    # bounded stand-ins that held are reported under `bounded`, never among the discharged obligations
    for o in extra:
        if o.get("kind") == "bounded" and o["status"] == "held":
            bounded.append({"what": o["id"], "bound": o.get("bound", ""), "hit": False, "output": o.get("detail", ""), "secs": o.get("secs", 0)})
    extra = [o for o in extra if not (o.get("kind") == "bounded" and o["status"] == "held")]
    obs.extend(extra)
    obs.extend(bounded_unroll)
    bounded.extend(bounded_info)
    if extra_hit is not None:
        obs.append(extra_hit)
    for g_ in guards:
        if not g_["ok"]:
            errors.append(("engine guard: " + g_["guard"], g_["detail"]))
    kf = [f for f in known_findings() if f["property"] == pid]
    violations, known_hits, undecided, timed_out = [], [], [], []
    for o in obs:
        if o["status"] == "proved":
            continue
        if o["status"] == "refuted":
            hit = None
            for f in kf:
                if f.get("status") == "known" and re.search(f["obligation"], o["id"]):
                    hit = f
                    break
            (known_hits if hit else violations).append((o, hit))
        elif o["status"] == "error":
            errors.append((o["id"], o.get("detail", "")))
        elif o["status"] == "timeout":
            timed_out.append(o)          # wall-clock safety net fired: never a verdict
        else:
            undecided.append(o)
    # an obligation that was discharged on the unchanged tree (committed baseline) and is no longer discharged is
    # reported as a violation without a failing input (DESIGN §2.5); anything else undischarged is *undecided*
    baseline = load_baseline(pid)
    regressed = []
    if baseline is not None:
        still = []
        for o in undecided:
            if clause_id(o["id"]) in baseline and not o.get("no_regress"):
                hit = None
                for f in kf:
                    if f.get("status") == "known" and re.search(f["obligation"], o["id"]):
                        hit = f
                        break
                if hit:
                    known_hits.append((o, hit))
                else:
                    regressed.append(o)
            else:
                still.append(o)
        undecided = still
    if record_baseline:
        os.makedirs(os.path.join(ROOT, "baseline"), exist_ok=True)
        by_clause = {}
        for o in obs:
            by_clause.setdefault(clause_id(o["id"]), []).append(o["status"])
        proved = sorted(c for c, sts in by_clause.items() if all(x == "proved" for x in sts))
        json.dump({"property": pid, "proved_clauses": proved}, open(os.path.join(ROOT, "baseline", f"{pid}.json"), "w"), indent=1)
        print(f"baseline recorded: {len(proved)} clauses")
    discharged = sum(1 for o in obs if o["status"] == "proved")
    # ---- replay files + verdict lines
    rc = 0
    printed_known = set()
    for o, hit in known_hits:
        if hit["what"] not in printed_known:
            print(f"KNOWN-FINDING: property={pid} {hit['what']}")
            printed_known.add(hit["what"])
    for o in regressed:
        o = dict(o)
        o["detail"] = (o.get("detail", "") + " | discharged on the unchanged tree (baseline), not discharged now: " + o["backend"]).strip()
        violations.append((o, None))
    if violations:
        from pyvc import replay
        seen_files = set()
        for o, _ in violations:
            path, reproduced = replay.write_replay(pid, o, REPLAYS)
            if path in seen_files:
                continue
            seen_files.add(path)
            tail = "" if reproduced else " no-failing-input-found"
            print(f"VIOLATION property={pid} replay={path}{tail}")
        rc = 1
    if errors:
        for k, d in errors:
            print(f"CHECKER-ERROR: {k}: {d[:400]}")
        rc = rc or 3
    if unreachable or undecided:
        for k, d in unreachable:
            print(f"UNDECIDED: {k} out of reach: {d[:300]}")
        for o in undecided:
            print(f"UNDECIDED: {o['id']} ({o['backend']})")
        rc = rc or 2
    if timed_out:
        for o in timed_out:
            print(f"UNDECIDED: {o['id']} (wall-clock limit hit before the resource budget was used up: machine too busy; not a verdict)")
        rc = rc or 2
    if not obs and rc == 0:
        print(f"CHECKER-ERROR: property {pid} generated zero obligations")
        rc = 3
    # ---- evidence
    info = getattr(pmod, "INFO", {}) if pmod else {}
    samples = []
    for o in obs[:3] + [o for o in obs if o["status"] != "proved"][:3]:
        samples.append({k: o[k] for k in ("id", "kind", "status", "backend", "secs") if k in o})
    by_backend = {}
    for o in obs:
        by_backend[o["backend"]] = by_backend.get(o["backend"], 0) + 1
    assumed_if = sorted({i for f in fn_summ for i in f["assumed_interfaces"]})
    ev = {
        "property_id": pid, "tier": tier, "seed": seed, "level": info.get("level", "proof"),
        "coverage": {
            "obligations": len(obs) - len(known_hits), "discharged": discharged,
            "known_finding_obligations": len(known_hits),
            "checker_cmd": f"./check {pid} --tier {tier}",
            "trusted_base": BASE_TRUSTED + info.get("trusted_base", []) + [f"assumed interface/library contract: {i}" for i in assumed_if],
            "functions_under_contract": fn_summ,
            "obligations_by_backend": by_backend,
            "solver_secs": round(sum(o.get("secs", 0) for o in obs), 3),
            "samples": samples,
            "undischarged": [{"id": o["id"], "status": o["status"], "backend": o["backend"]} for o in obs if o["status"] != "proved"],
            "known_findings_matched": sorted(printed_known),
            "not_decided": info.get("not_decided", []),
            "bounded": info.get("bounded", []) + bounded,
            "engine_guards": guards,
            "explanation": info.get("explanation", ""),
            "obligation_list": [{"id": o["id"], "status": o["status"], "backend": o["backend"], "secs": o.get("secs", 0)} for o in obs],
        },
        "assumptions": info.get("assumptions", []) + [f"trusted (assumed, unverified) contract: {k}" for k, s in R.specs.items() if s.trusted and pid in getattr(s, "used_by", (pid,))][:40]
        + [f"determinism assumed (ghost result function `{c.name}`): the result of {k} depends only on the values of its arguments"
           for k, s in R.specs.items() for c in getattr(s, "defs", []) if pid in c.props],
        "wall_s": round(time.time() - t0, 2),
        "violations": len(violations),
    }
    with open(os.path.join(EVID, f"{pid}.json"), "w") as f:
        json.dump(ev, f, indent=1)
    print(f"{pid}: {discharged}/{len(obs)} obligations discharged over {len(fn_summ)} functions, "
          f"{len(violations)} violations, {len(known_hits)} known, {len(undecided) + len(unreachable)} undecided, "
          f"{len(errors)} errors, {ev['wall_s']}s (exit {rc})")
    if verbose:
        for o in obs:
            if o["status"] != "proved":
                print("  ", o["id"], o["status"], o["backend"], o.get("detail", "")[:200])
    return rc
