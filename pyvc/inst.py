"""Pointwise quantifier instantiation (DESIGN §2.3): skolemise the goal, instantiate quantified hypotheses at
the ground terms of the query.  Only weakens hypotheses, so `unsat` remains a proof."""
from __future__ import annotations
import itertools
import z3


def _subterms(e, acc, seen):
    stack = [e]
    while stack:
        x = stack.pop()
        i = x.get_id()
        if i in seen:
            continue
        seen.add(i)
        if z3.is_quantifier(x):
            continue            # terms under binders may contain bound vars
        if z3.is_app(x):
            acc.append(x)
            stack.extend(x.children())


def has_var(e, cache):
    i = e.get_id()
    if i in cache:
        return cache[i]
    r = False
    if z3.is_var(e):
        r = True
    elif z3.is_quantifier(e):
        r = True
    else:
        for c in e.children():
            if has_var(c, cache):
                r = True
                break
    cache[i] = r
    return r


def split_conj(e):
    if z3.is_and(e):
        out = []
        for c in e.children():
            out.extend(split_conj(c))
        return out
    return [e]


def skolemize_goal(goal):
    """goal (to be proved) -> list of goals with top-level universals replaced by fresh constants"""
    out = []
    for g in split_conj(goal):
        while z3.is_quantifier(g) and g.is_forall():
            n = g.num_vars()
            consts = [z3.FreshConst(g.var_sort(i), "sk_" + g.var_name(i)) for i in range(n)]
            g = z3.substitute_vars(g.body(), *reversed(consts))
        if z3.is_and(g):
            out.extend(skolemize_goal(g))
        elif z3.is_implies(g) and z3.is_quantifier(g.arg(1)) and g.arg(1).is_forall():
            a = g.arg(0)
            for sub in skolemize_goal(g.arg(1)):
                out.append(z3.Implies(a, sub))
        else:
            out.append(g)
    return out


def ground_terms(formulas, sorts):
    acc, seen = [], set()
    for f in formulas:
        _subterms(f, acc, seen)
    by_sort = {}
    vc = {}
    for t in acc:
        s = t.sort()
        if s in sorts and not has_var(t, vc):
            by_sort.setdefault(s, {})[t.get_id()] = t
    return {s: list(d.values()) for s, d in by_sort.items()}


def term_depth(t, cache):
    i = t.get_id()
    if i in cache:
        return cache[i]
    d = 0 if not t.children() else 1 + max(term_depth(c, cache) for c in t.children())
    cache[i] = d
    return d


def instantiate(qhyps, ground_formulas, cap=4000, rounds=1):
    """instances of the universally quantified hypotheses at ground terms of `ground_formulas`"""
    insts = []
    qs = []
    for h in qhyps:
        for c in split_conj(h):
            if z3.is_quantifier(c) and c.is_forall():
                qs.append(c)
            else:
                insts.append(c)       # not a top-level forall: keep as is (may still contain quantifiers)
    gf = list(ground_formulas)
    dcache = {}
    for _ in range(rounds):
        sorts = set()
        for q in qs:
            for i in range(q.num_vars()):
                sorts.add(q.var_sort(i))
        gts = ground_terms(gf + insts, sorts)
        new = []
        for q in qs:
            n = q.num_vars()
            cands = [gts.get(q.var_sort(i), []) for i in range(n)]
            total = 1
            for c in cands:
                total *= max(1, len(c))
            maxd = 6
            while total > cap and maxd > 0:
                maxd -= 1
                cands = [[t for t in c if term_depth(t, dcache) <= maxd] for c in cands]
                total = 1
                for c in cands:
                    total *= max(1, len(c))
            if any(len(c) == 0 for c in cands):
                continue
            for tup in itertools.product(*cands):
                new.append(z3.substitute_vars(q.body(), *reversed(tup)))
        insts.extend(new)
    return insts


def pointwise_check(qf_hyps, qhyps, goal, axioms=(), timeout_ms=10000, rounds=1):
    """try to prove And(hyps) => goal by skolemisation + pointwise instantiation.
    returns 'unsat' (proved) or 'unknown'"""
    goals = skolemize_goal(goal)
    for g in goals:
        s = z3.Solver()
        s.set("timeout", timeout_ms)
        neg = z3.Not(g)
        base = list(axioms) + list(qf_hyps) + [neg]
        insts = instantiate(qhyps, base, rounds=rounds)
        s.add(*base)
        s.add(*insts)
        if s.check() != z3.unsat:
            return "unknown"
    return "unsat"
