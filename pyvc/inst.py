"""Pointwise quantifier instantiation (DESIGN §2.3): skolemise the goal, instantiate quantified hypotheses at
the ground terms of the query.  Only weakens hypotheses, so `unsat` remains a proof."""
from __future__ import annotations
import itertools, threading
import z3


def cli_check(solver, timeout_ms, want_model=False, opts=(), stage="cli"):
    """decide the solver's assertions with the z3 command-line binary under a resource limit (deterministic) and a
    wall-clock safety net -> ('sat'|'unsat'|'unknown', model_text)"""
    import subprocess, tempfile, os, time, re
    from . import budget
    txt = solver.to_smt2()
    if want_model:
        txt += "\n(get-model)\n"
    lim = budget.rl(timeout_ms, stage)
    secs = max(1, int(budget.wall_ms(timeout_ms, stage) / 1000))
    with tempfile.NamedTemporaryFile("w", suffix=".smt2", delete=False, dir=os.environ.get("TMPDIR", "/tmp")) as f:
        f.write(txt)
        path = f.name
    t0 = time.time()
    cpu0 = budget.children_cpu()
    try:
        cmd = ["z3-new", f"-T:{secs}", f"rlimit={lim}"] + (["-st"] if budget.LOG else []) + list(opts) + [path]
        p = subprocess.run(cmd, capture_output=True, text=True, timeout=secs + 10,
                           preexec_fn=budget.limit_cpu(budget.cpu_s(timeout_ms, stage)))
        out = p.stdout.strip()
        first = out.splitlines()[0].strip() if out else "unknown"
        if first == "timeout" and budget.stopped_by_wall_clock(cpu0, timeout_ms, stage, t0):
            budget.wall_hit(stage)          # wall clock, not the CPU cap: machine too busy, no verdict
        if first not in ("sat", "unsat"):
            first = "unknown"
        if budget.LOG:
            m = re.search(r":rlimit-count\s+(\d+)", out)
            budget.log(stage, first, int(m.group(1)) if m else 0, time.time() - t0, lim)
        mt = ""
        if want_model and first == "sat":
            mt = out[len(first):].strip()
            k = mt.rfind("(:")            # strip the statistics block
            if budget.LOG and k > 0:
                mt = mt[:k]
        return first, mt
    except subprocess.TimeoutExpired:
        if budget.stopped_by_wall_clock(cpu0, timeout_ms, stage, t0):
            budget.wall_hit(stage)
        return "unknown", ""
    except Exception:  # noqa (missing binary ...)
        return "unknown", ""
    finally:
        try:
            os.unlink(path)
        except OSError:
            pass


def guarded_check(solver, timeout_ms, stage="inproc"):
    """solver.check() under a resource limit (and the wall-clock safety net)"""
    from . import budget
    return budget.inproc_check(solver, timeout_ms, stage)


def _subterms(e, acc, seen):
    stack = [e]
    while stack:
        x = stack.pop()
        i = x.get_id()
        if i in seen:
            continue
        seen.add(i)
        if z3.is_quantifier(x):
            continue            # terms under binders may contain bound vars
        if z3.is_app(x):
            acc.append(x)
            stack.extend(x.children())


def has_var(e, cache):
    i = e.get_id()
    if i in cache:
        return cache[i]
    r = False
    if z3.is_var(e):
        r = True
    elif z3.is_quantifier(e):
        r = True
    else:
        for c in e.children():
            if has_var(c, cache):
                r = True
                break
    cache[i] = r
    return r


def split_conj(e):
    if z3.is_and(e):
        out = []
        for c in e.children():
            out.extend(split_conj(c))
        return out
    return [e]


def _skolem(e, pol):
    """replace universals in positive (existentials in negative) position by fresh constants"""
    if z3.is_quantifier(e):
        if (e.is_forall() and pol) or (e.is_exists() and not pol):
            n = e.num_vars()
            consts = [z3.FreshConst(e.var_sort(i), "sk_" + e.var_name(i)) for i in range(n)]
            return _skolem(z3.substitute_vars(e.body(), *reversed(consts)), pol)
        return e
    if z3.is_and(e):
        return z3.And(*[_skolem(c, pol) for c in e.children()])
    if z3.is_or(e):
        return z3.Or(*[_skolem(c, pol) for c in e.children()])
    if z3.is_not(e):
        return z3.Not(_skolem(e.arg(0), not pol))
    if z3.is_implies(e):
        return z3.Implies(_skolem(e.arg(0), not pol), _skolem(e.arg(1), pol))
    return e


def _split(g):
    if z3.is_and(g):
        out = []
        for c in g.children():
            out.extend(_split(c))
        return out
    if z3.is_or(g):
        ch = g.children()
        ands = [i for i, c in enumerate(ch) if z3.is_and(c)]
        if len(ands) == 1:
            rest = [c for i, c in enumerate(ch) if i != ands[0]]
            return [z3.Or(*(rest + [x])) for x in _split(ch[ands[0]])]
    if z3.is_implies(g) and z3.is_and(g.arg(1)):
        return [z3.Implies(g.arg(0), x) for x in _split(g.arg(1))]
    return [g]


def skolemize_goal(goal):
    """goal (to be proved) -> list of goals whose positive universals are replaced by fresh constants;
    top-level conjunctions are split into separate (smaller) queries"""
    return _split(_skolem(goal, True))


def ground_terms(formulas, sorts):
    acc, seen = [], set()
    for f in formulas:
        _subterms(f, acc, seen)
    by_sort = {}
    vc = {}
    for t in acc:
        s = t.sort()
        if s in sorts and not has_var(t, vc):
            if z3.is_int(t) or z3.is_real(t):
                # arithmetic compounds are not useful instance terms (and blow the product up); keep constants,
                # function applications, lengths, accessors
                k = t.decl().kind()
                if k in (z3.Z3_OP_ADD, z3.Z3_OP_SUB, z3.Z3_OP_MUL, z3.Z3_OP_UMINUS, z3.Z3_OP_DIV, z3.Z3_OP_IDIV, z3.Z3_OP_MOD,
                         z3.Z3_OP_REM, z3.Z3_OP_ITE, z3.Z3_OP_TO_REAL, z3.Z3_OP_TO_INT) and t.num_args() > 0:
                    # allow the common index shapes i+1 / i-1 / n-1
                    if not (k in (z3.Z3_OP_ADD, z3.Z3_OP_SUB) and t.num_args() == 2 and any(z3.is_int_value(c) for c in t.children())):
                        continue
            by_sort.setdefault(s, {})[t.get_id()] = t
    return {s: list(d.values()) for s, d in by_sort.items()}


def term_depth(t, cache):
    i = t.get_id()
    if i in cache:
        return cache[i]
    d = 0 if not t.children() else 1 + max(term_depth(c, cache) for c in t.children())
    cache[i] = d
    return d


def _has_q(e, cache):
    i = e.get_id()
    if i in cache:
        return cache[i]
    r = z3.is_quantifier(e) or any(_has_q(c, cache) for c in e.children())
    cache[i] = r
    return r


def pull_universals(h, cache=None, depth=0):
    """hypothesis -> equivalent list of formulas in which positive universals under /\, A => . and \/ with
    quantifier-free side formulas are pulled to the top (so that they can be instantiated pointwise)"""
    cache = {} if cache is None else cache
    if depth > 12 or not _has_q(h, cache):
        return [h]
    if z3.is_and(h):
        out = []
        for c in h.children():
            out.extend(pull_universals(c, cache, depth + 1))
        return out
    if z3.is_quantifier(h) and h.is_forall():
        n = h.num_vars()
        consts = [z3.FreshConst(h.var_sort(i), "pv") for i in range(n)]
        body = z3.substitute_vars(h.body(), *reversed(consts))
        if not _has_q(body, cache):
            return [h]
        out = []
        for p in pull_universals(body, cache, depth + 1):
            out.append(z3.ForAll(consts, p))
        return out
    if z3.is_implies(h) and not _has_q(h.arg(0), cache):
        a = h.arg(0)
        out = []
        for p in pull_universals(h.arg(1), cache, depth + 1):
            if z3.is_quantifier(p) and p.is_forall():
                n = p.num_vars()
                consts = [z3.FreshConst(p.var_sort(i), "pv") for i in range(n)]
                out.append(z3.ForAll(consts, z3.Implies(a, z3.substitute_vars(p.body(), *reversed(consts)))))
            else:
                out.append(z3.Implies(a, p))
        return out
    if z3.is_or(h):
        ch = h.children()
        qs = [i for i, c in enumerate(ch) if _has_q(c, cache)]
        if len(qs) == 1:
            rest = [c for i, c in enumerate(ch) if i != qs[0]]
            out = []
            for p in pull_universals(ch[qs[0]], cache, depth + 1):
                if z3.is_quantifier(p) and p.is_forall():
                    n = p.num_vars()
                    consts = [z3.FreshConst(p.var_sort(i), "pv") for i in range(n)]
                    out.append(z3.ForAll(consts, z3.Or(*(rest + [z3.substitute_vars(p.body(), *reversed(consts))]))))
                else:
                    out.append(z3.Or(*(rest + [p])))
            return out
    return [h]


def instantiate(qhyps, ground_formulas, cap=4000, rounds=1, maxdepth=None):
    """instances of the universally quantified hypotheses at ground terms of `ground_formulas`
    (terms deeper than maxdepth are not used as instances)"""
    insts = []
    qs = []
    for h in qhyps:
        for c in pull_universals(h):
            if z3.is_quantifier(c) and c.is_forall():
                qs.append(c)
            else:
                insts.append(c)       # not a top-level forall: keep as is (may still contain quantifiers)
    gf = list(ground_formulas)
    dcache = {}
    for _ in range(rounds):
        sorts = set()
        for q in qs:
            for i in range(q.num_vars()):
                sorts.add(q.var_sort(i))
        gts = ground_terms(gf + insts, sorts)
        if maxdepth is not None:
            gts = {s_: [t for t in ts if term_depth(t, dcache) <= maxdepth] for s_, ts in gts.items()}
        new = []
        for q in qs:
            n = q.num_vars()
            cands = [gts.get(q.var_sort(i), []) for i in range(n)]
            total = 1
            for c in cands:
                total *= max(1, len(c))
            maxd = 6
            while total > cap and maxd > 0:
                maxd -= 1
                cands = [[t for t in c if term_depth(t, dcache) <= maxd] for c in cands]
                total = 1
                for c in cands:
                    total *= max(1, len(c))
            if any(len(c) == 0 for c in cands):
                continue
            for tup in itertools.product(*cands):
                new.append(z3.substitute_vars(q.body(), *reversed(tup)))
        insts.extend(new)
    return insts


LEVELS = ((0, 2000), (2, 3000), (4, 6000), (None, None))


def propagate_links(qf_hyps, qhyps):
    """definitional links `atom == definition`: when the definition is literally among the hypotheses
    (as a whole or conjunct-wise) the atom holds"""
    ids = set()
    for h in list(qf_hyps) + list(qhyps):
        for c in split_conj(h):
            ids.add(c.get_id())

    def assumed(e):
        if e.get_id() in ids:
            return True
        if z3.is_and(e):
            return all(assumed(c) for c in e.children())
        return False
    extra = []
    for h in qhyps:
        if z3.is_eq(h) and h.arg(0).sort() == z3.BoolSort() and z3.is_app(h.arg(0)) and h.arg(0).decl().name().startswith("P_"):
            if assumed(h.arg(1)):
                extra.append(h.arg(0))
    return extra


def pointwise_check(qf_hyps, qhyps, goal, axioms=(), timeout_ms=10000, rounds=1):
    """try to prove And(hyps) => goal by skolemisation + pointwise instantiation, escalating the set of
    instance terms (skolem/constants first).  returns 'unsat' (proved) or 'unknown'"""
    qf_hyps = list(qf_hyps) + propagate_links(qf_hyps, qhyps)
    goals = skolemize_goal(goal)
    for g in goals:
        # antecedents of the goal are hypotheses (so that their universals get instantiated too)
        extra = []
        while z3.is_implies(g):
            extra.extend(split_conj(g.arg(0)))
            g = g.arg(1)
        neg = z3.Not(g)
        from .values import has_quant
        base = list(axioms) + list(qf_hyps) + [e for e in extra if not has_quant(e)] + [neg]
        qhyps_g = list(qhyps) + [e for e in extra if has_quant(e)]
        done = False
        for maxdepth, tmo in LEVELS:
            s = z3.Solver()
            insts = instantiate(qhyps_g, base, rounds=rounds, maxdepth=maxdepth)
            s.add(*base)
            s.add(*insts)
            if cli_check(s, timeout_ms, stage=f"pointwise{rounds}.d{maxdepth}")[0] == "unsat":
                done = True
                break
        if not done:
            return "unknown"
    return "unsat"
