"""Refutation over closed finite universes (DESIGN §2.3 step 2).

With quantified invariants among the hypotheses z3 does not answer `sat`.  The query is re-stated with the
uninterpreted sort of ids/cells (`Str`) replaced by a finite enumeration of N elements, so every quantifier over
it ranges over a closed finite universe; a model is then a genuine finite interpretation satisfying all
hypotheses in full strength (not an artefact of partial instantiation)."""
from __future__ import annotations
import re, time
import z3


def finite_refute(hyps, goal, axioms=(), sizes=(2, 3, 4), timeout_ms=10000, sort_name="Str"):
    """returns (model_text, model, ctx, n) if a countermodel exists in a universe of n elements, else None"""
    s = z3.Solver()
    for a in axioms:
        s.add(a)
    for h in hyps:
        s.add(h)
    s.add(z3.Not(goal))
    smt = s.to_smt2()
    if f"(declare-sort {sort_name} 0)" not in smt:
        return None
    for n in sizes:
        elems = " ".join(f"({sort_name}!u{i})" for i in range(n))
        txt = smt.replace(f"(declare-sort {sort_name} 0)", f"(declare-datatypes (({sort_name} 0)) (({elems})))")
        txt = txt.replace("(check-sat)", "")
        ctx = z3.Context()
        try:
            fs = z3.parse_smt2_string(txt, ctx=ctx)
        except z3.Z3Exception:
            return None
        s2 = z3.Solver(ctx=ctx)
        s2.set("timeout", timeout_ms)
        s2.add(fs)
        r = s2.check()
        if r == z3.sat:
            m = s2.model()
            return model_lines(m), m, ctx, n
    return None


def model_lines(m):
    lines = []
    for d in m.decls():
        try:
            v = m[d]
            lines.append(f"{d.name()} = {v}")
        except Exception:  # noqa
            pass
    return "\n".join(sorted(lines))
