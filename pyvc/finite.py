"""Refutation over closed finite universes (DESIGN §2.3 step 2).

With quantified invariants among the hypotheses z3 does not answer `sat`.  The query is re-stated with the
uninterpreted sort of ids/cells (`Str`) replaced by a finite enumeration of N elements, so every quantifier over
it ranges over a closed finite universe; a model is then a genuine finite interpretation satisfying all
hypotheses in full strength (not an artefact of partial instantiation)."""
from __future__ import annotations
import re, time
import z3


def finite_refute(hyps, goal, axioms=(), sizes=(2, 3, 4), timeout_ms=10000, sort_name="Str"):
    """returns (model_text, model, ctx, n) if a countermodel exists in a universe of n elements, else None"""
    s = z3.Solver()
    for a in axioms:
        s.add(a)
    for h in hyps:
        s.add(h)
    s.add(z3.Not(goal))
    smt = s.to_smt2()
    if f"(declare-sort {sort_name} 0)" not in smt:
        return None
    for n in sizes:
        elems = " ".join(f"({sort_name}!u{i})" for i in range(n))
        txt = smt.replace(f"(declare-sort {sort_name} 0)", f"(declare-datatypes (({sort_name} 0)) (({elems})))")
        txt = txt.replace("(check-sat)", "")
        # decided by the command-line binary under a hard wall-clock limit (z3 handles quantifiers over the finite
        # enumeration by MBQI; in-process calls were seen to overrun their timeout)
        import subprocess, tempfile, os
        from . import budget
        secs = max(1, int(budget.wall_ms(timeout_ms, "finite") / 1000))
        with tempfile.NamedTemporaryFile("w", suffix=".smt2", delete=False, dir=os.environ.get("TMPDIR", "/tmp")) as f:
            f.write(txt + "\n(check-sat)\n(get-model)\n")
            path = f.name
        try:
            t0_ = time.time()
            cpu0 = budget.children_cpu()
            p = subprocess.run(["z3-new", f"-T:{secs}", f"rlimit={budget.rl(timeout_ms, 'finite')}", path], capture_output=True, text=True, timeout=secs + 10,
                               preexec_fn=budget.limit_cpu(budget.cpu_s(timeout_ms, "finite")))
            out = p.stdout.strip()
            if out.startswith("timeout") and budget.stopped_by_wall_clock(cpu0, timeout_ms, "finite", t0_):
                budget.wall_hit("finite")
            budget.log(f"finite{n}", out.split("\n")[0][:10], 0, time.time() - t0_, budget.rl(timeout_ms, "finite"))
        except subprocess.TimeoutExpired:
            if budget.stopped_by_wall_clock(cpu0, timeout_ms, "finite", t0_):
                budget.wall_hit("finite")
            out = "unknown"
        except Exception:  # noqa
            out = "unknown"
        finally:
            try:
                os.unlink(path)
            except OSError:
                pass
        if out.startswith("sat"):
            return out[3:].strip()[:6000], None, None, n
    return None


def model_lines(m):
    lines = []
    for d in m.decls():
        try:
            v = m[d]
            lines.append(f"{d.name()} = {v}")
        except Exception:  # noqa
            pass
    return "\n".join(sorted(lines))


def _find_sort(e, name):
    seen, stack = set(), [e]
    while stack:
        x = stack.pop()
        if x.get_id() in seen:
            continue
        seen.add(x.get_id())
        if z3.is_quantifier(x):
            for i in range(x.num_vars()):
                if x.var_sort(i).name() == name:
                    return x.var_sort(i)
            stack.append(x.body())
        else:
            if x.sort().name() == name:
                return x.sort()
            stack.extend(x.children())
    return None


def expand(e, srt, consts, cache):
    """expand quantifiers whose bound variables all range over the finite sort"""
    import itertools
    k = e.get_id()
    if k in cache:
        return cache[k][1]
    if z3.is_quantifier(e) and not e.is_lambda():
        n = e.num_vars()
        if all(e.var_sort(i) == srt for i in range(n)):
            body = e.body()
            parts = []
            for tup in itertools.product(consts, repeat=n):
                inst = z3.substitute_vars(body, *reversed(tup))
                parts.append(expand(inst, srt, consts, cache))
            ctx = e.ctx
            r = z3.And(*parts) if e.is_forall() else z3.Or(*parts)
            if len(parts) == 1:
                r = parts[0]
        else:
            r = e
    elif z3.is_app(e) and e.num_args() > 0:
        ch = [expand(c, srt, consts, cache) for c in e.children()]
        if any(a.get_id() != b.get_id() for a, b in zip(ch, e.children())):
            r = e.decl()(*ch)
        else:
            r = e
    else:
        r = e
    cache[k] = (e, r)
    return r


def finite_refute_inctx(hyps, goal, axioms=(), sizes=(2, 3, 4), timeout_ms=10000, sort=None):
    """same as finite_refute but stays in the main z3 context (so the model can evaluate the caller's terms):
    quantifiers over the id sort are expanded over fresh constants u0..u(n-1) and the sort is closed by
    the domain-closure axiom  forall x. x = u0 \/ ... \/ x = u(n-1)."""
    from .tys import Str
    sort = sort or Str
    forms = list(axioms) + list(hyps) + [z3.Not(goal)]
    for n in sizes:
        us = [z3.Const(f"Str!u{i}", sort) for i in range(n)]
        cache = {}
        fs = [expand(f, sort, us, cache) for f in forms]
        x = z3.Const("x!closure", sort)
        s2 = z3.Solver()
        s2.set("timeout", timeout_ms)
        s2.add(*fs)
        s2.add(z3.ForAll([x], z3.Or(*[x == u for u in us])))
        if n > 1:
            pass
        r = s2.check()
        if r == z3.sat:
            m = s2.model()
            return model_lines(m), m, None, n, us
    return None
