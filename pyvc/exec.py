"""Symbolic executor for the functional Python subset hive's kernel is written in.

Executes the *real* AST (re-read from /repo on every run), forking on control flow, python
truthiness, dynamic dispatch and implicitly raising operations.  See DESIGN.md §2.
"""
from __future__ import annotations
import ast, itertools
import z3
from .tys import *
from .values import *
from .repo import Repo

MAX_DEPTH = 60


# ------------------------------------------------------------------ meta-level callables
class FuncV:
    def __init__(self, node, modpath, cls=None, closure=None, key=None):
        self.node, self.modpath, self.cls, self.closure, self.key = node, modpath, cls, closure, key

    def __repr__(self):
        return f"<fn {getattr(self.node, 'name', 'lambda')}>"


class BoundM:
    def __init__(self, recv, fn):
        self.recv, self.fn = recv, fn


class ClassV:
    def __init__(self, ci):
        self.ci = ci

    def __repr__(self):
        return f"<classref {self.ci.name}>"


class ModV:
    def __init__(self, name, internal=False):
        self.name, self.internal = name, internal

    def __repr__(self):
        return f"<module {self.name}>"


class Builtin:
    def __init__(self, name):
        self.name = name

    def __repr__(self):
        return f"<builtin {self.name}>"


class ClassOfV:
    """x.__class__ of a union-typed value (kept symbolic: no fork)"""

    def __init__(self, sym):
        self.sym = sym


class NameOfV:
    """x.__class__.__name__ of a union-typed value (optionally lower-cased)"""

    def __init__(self, sym, lower=False):
        self.sym, self.lower = sym, lower


class VirtualM:
    """dynamically dispatched method of a closed union, used through its virtual contract"""

    def __init__(self, recv, root, name):
        self.recv, self.root, self.name = recv, root, name


class ValMethod:
    def __init__(self, recv, name):
        self.recv, self.name = recv, name


class PyRecord:
    """instance of a repo data class kept at meta level (generic containers such as EntityUpdateResult whose
    declared field types are type variables / protocol types)"""

    def __init__(self, cname, fields):
        self.cname, self.fields = cname, dict(fields)

    def __repr__(self):
        return f"<rec {self.cname} {list(self.fields)}>"

    def __getattr__(self, k):
        if k in ("cname", "fields") or k.startswith("__"):
            raise AttributeError(k)
        try:
            return self.fields[k]
        except KeyError:
            raise AttributeError(k)


class AbsIter:
    """an abstract iterator held in a field of a stateful object: the rows it will yield and how many it has yielded"""

    def __init__(self, rows, pos):
        self.rows, self.pos = rows, pos

    def __repr__(self):
        return "<absiter>"


class TypeRef:
    """a builtin/external type used only with isinstance / annotations"""

    def __init__(self, name):
        self.name = name


class Report:
    def __init__(self, rtype, fields, raw=None):
        self.rtype, self.fields, self.raw = rtype, fields, raw

    def __repr__(self):
        return f"<report {self.rtype} {list(self.fields) if isinstance(self.fields, dict) else self.fields}>"


class St:
    """path state: quantifier-free path condition, quantified facts (kept out of feasibility queries),
    ghost report log"""
    __slots__ = ("pc", "qpc", "reports", "havoc")

    def __init__(self, pc=(), reports=(), havoc=False, qpc=()):
        self.pc, self.qpc, self.reports, self.havoc = tuple(pc), tuple(qpc), tuple(reports), havoc

    def assume(self, *conds):
        add, qadd = [], []
        for c in conds:
            if isinstance(c, bool):
                if c:
                    continue
                add.append(z3.BoolVal(False))
            else:
                c = z3_bool(c)
                if z3.is_and(c):
                    for ch in c.children():
                        (qadd if has_quant(ch) else add).append(ch)
                else:
                    (qadd if has_quant(c) else add).append(c)
        if not add and not qadd:
            return self
        return St(self.pc + tuple(add), self.reports, self.havoc, self.qpc + tuple(qadd))

    def report(self, r):
        return St(self.pc, self.reports + (r,), self.havoc, self.qpc)

    @property
    def hyps(self):
        return self.pc + self.qpc


class Outcome:
    __slots__ = ("kind", "val", "st", "env")

    def __init__(self, kind, val, st, env=None):
        self.kind, self.val, self.st, self.env = kind, val, st, env   # kind: 'ret' | 'raise'; env: final bindings

    def __repr__(self):
        return f"<{self.kind} {self.val!r} |pc|={len(self.st.pc)}>"


class Obligation:
    def __init__(self, oid, kind, hyps, goal, meta=None):
        self.oid, self.kind, self.hyps, self.goal, self.meta = oid, kind, list(hyps), goal, meta or {}


BUILTIN_NAMES = {
    "len", "isinstance", "hasattr", "tuple", "list", "sorted", "map", "filter", "zip", "any", "all", "sum", "min",
    "max", "int", "float", "bool", "str", "repr", "abs", "round", "range", "enumerate", "set", "frozenset", "dict",
    "print", "type", "getattr", "cast", "replace", "asdict", "reduce", "uuid4", "Success", "Failure", "super",
    "reversed", "iter", "next", "id",
}
EXC_NAMES = {"Exception", "ValueError", "TypeError", "KeyError", "IndexError", "AttributeError", "IOError", "OSError",
             "NotImplementedError", "StopIteration", "RuntimeError", "FileNotFoundError", "AssertionError", "ZeroDivisionError"}


class Exec:
    def __init__(self, world, specs=None):
        self.world = world
        self.repo = world.repo
        self.specs = specs            # SpecRegistry or None
        self.opaque = set()           # spec keys to use modularly at call sites
        self.obligations = []         # call-site preconditions collected during execution
        self.axioms = []              # global assumptions (assumed library / interface contracts)
        self.solver_calls = 0
        self._feas_cache = {}
        self._ent_cache = {}
        self.depth = 0
        self.cur_key = None
        self.unsupported_notes = []
        self.call_counter = itertools.count()
        self.uf_cache = {}
        self.iface_used = set()
        self.loop_specs = {}
        self.trace_calls = []
        self.unordered_sites = []
        self.use_virtual = True
        self.capture = None
        self.fresh_uuids = []
        self.fn_stack = []
        self.sort_sites = []

    # ============================================================== solver helpers
    def base_axioms(self):
        return list(self.axioms) + strlit_axioms()

    def feasible(self, pc):
        key = tuple(c.get_id() for c in pc)
        if key in self._feas_cache:
            return self._feas_cache[key][1]
        s = z3.Solver()
        s.add(*self.base_axioms())
        s.add(*pc)
        self.solver_calls += 1
        from .budget import inproc_check
        r = inproc_check(s, 3000, "feasible") != z3.unsat
        self._feas_cache[key] = (pc, r)    # holds the terms: ids of collected ASTs are reused by z3
        return r

    def entails(self, st, cond):
        """pc |= cond ?  (unknown counts as not entailed)"""
        if isinstance(cond, bool):
            return cond
        c = z3_bool(cond)
        cid = c.get_id()
        for p in st.pc:
            if p.get_id() == cid:
                return True
        key = (tuple(x.get_id() for x in st.pc), len(st.qpc), cid)
        if key in self._ent_cache:
            return self._ent_cache[key][1]
        s = z3.Solver()
        s.add(*self.base_axioms())
        s.add(*st.pc)
        s.add(z3.Not(c))
        self.solver_calls += 1
        from .budget import inproc_check
        r = inproc_check(s, 3000, "entails") == z3.unsat
        if not r and st.qpc:
            from .inst import pointwise_check
            self.solver_calls += 1
            try:
                r = pointwise_check(st.pc, tuple(st.qpc) + tuple(union_axioms()), c, self.base_axioms(), 3000) == "unsat"
            except z3.Z3Exception:
                r = False
        self._ent_cache[key] = ((st.pc, c), r)
        return r

    def fork(self, st, cond):
        """yield (bool, st') for the feasible truth values of cond (python bool or z3/Sym bool)"""
        if isinstance(cond, Sym):
            cond = cond.e
        if isinstance(cond, bool):
            yield cond, st
            return
        c = z3.simplify(cond)
        if z3.is_true(c):
            yield True, st
            return
        if z3.is_false(c):
            yield False, st
            return
        for val, extra in ((True, c), (False, z3.Not(c))):
            st2 = st.assume(extra)
            if self.feasible(st2.pc):
                yield val, st2

    def fork_truth(self, st, v):
        t = truth(v)
        yield from self.fork(st, t)

    def guard(self, st, ok, exc, where):
        """operation that raises `exc` unless ok: returns (st_ok or None, raise_outcomes list)"""
        if isinstance(ok, Sym):
            ok = ok.e
        if isinstance(ok, bool):
            if ok:
                return st, []
            return None, [(Raised(ExcVal(exc), where), st)]
        if self.entails(st, ok):
            return st, []
        raises = []
        st_bad = st.assume(z3.Not(ok))
        if self.feasible(st_bad.pc):
            raises.append((Raised(ExcVal(exc), where), st_bad))
        st_ok = st.assume(ok)
        if not self.feasible(st_ok.pc):
            st_ok = None
        return st_ok, raises

    # ============================================================== name resolution
    def lookup(self, name, env):
        if name in env:
            return env[name]
        modpath = env.get("__module__")
        r = self.repo.resolve(modpath, name) if modpath else None
        if r is not None:
            return self.from_resolved(r, name)
        if name in EXC_NAMES:
            return ClassV(_exc_class(name))
        if name in BUILTIN_NAMES:
            return Builtin(name)
        if name in ("object", "str", "int", "float", "bool"):
            return Builtin(name)
        if name == "NotImplemented":
            return Opaque("NotImplemented")
        raise PyvcUnsupported(f"unresolved name {name} in {modpath}")

    def from_resolved(self, r, name):
        kind = r[0]
        if kind == "func":
            return FuncV(r[1], r[2], key=f"{r[2]}::{r[1].name}")
        if kind == "class":
            return ClassV(r[1])
        if kind == "module":
            return ModV(r[1], internal=True)
        if kind == "extmodule":
            return ModV(r[1])
        if kind == "extname":
            mod, nm = r[1], r[2]
            if nm in BUILTIN_NAMES or nm in ("Map",):
                return Builtin(nm)
            if mod in ("typing", "abc", "__future__"):
                return TypeRef(nm)
            if mod == "uuid" and nm == "UUID":
                return TypeRef("UUID")
            return Builtin(f"{mod}.{nm}")
        if kind == "assign":
            # module-level constant: evaluate in its module (constants, aliases, getLogger ...)
            expr, modpath = r[1], r[2]
            if isinstance(expr, ast.Call) and ast.unparse(expr.func) in ("logging.getLogger", "getLogger"):
                return Opaque("logger")
            if isinstance(expr, ast.Call) and ast.unparse(expr.func) == "TypeVar":
                return TypeRef(name)
            outs = list(self.expr(expr, {"__module__": modpath}, St()))
            if len(outs) != 1 or isinstance(outs[0][0], Raised):
                raise PyvcUnsupported(f"module constant {name} is not a single value")
            return outs[0][0]
        raise PyvcUnsupported(f"resolve kind {kind}")

    # ============================================================== statements
    def run_function(self, fv, args, st):
        """execute a repo function transparently: yields Outcome"""
        node = fv.node
        if self.depth > MAX_DEPTH:
            raise PyvcUnsupported("call depth exceeded (recursion?)")
        env = dict(fv.closure or {})
        env["__module__"] = fv.modpath
        env["__class__"] = fv.cls
        env["__fn__"] = fv
        env.update(args)
        self.depth += 1
        pushed = False
        if fv.key and not isinstance(node, ast.Lambda):
            self.fn_stack.append(fv.key)
            pushed = True
        try:
            if isinstance(node, ast.Lambda):
                for v, st2 in self.expr(node.body, env, st):
                    if isinstance(v, Raised):
                        yield Outcome("raise", v, st2)
                    else:
                        yield Outcome("ret", v, st2)
                return
            for kind, val, env2, st2 in self.block(node.body, env, st):
                if kind == "ret":
                    yield Outcome("ret", val, st2, env2)
                elif kind == "raise":
                    yield Outcome("raise", val, st2, env2)
                elif kind == "fall":
                    yield Outcome("ret", None, st2, env2)
                else:
                    raise PyvcUnsupported(f"{kind} outside loop")
        finally:
            self.depth -= 1
            if pushed:
                self.fn_stack.pop()

    def block(self, stmts, env, st):
        if not stmts:
            yield ("fall", None, env, st)
            return
        first, rest = stmts[0], stmts[1:]
        for kind, val, env2, st2 in self.stmt(first, env, st):
            if kind == "fall":
                yield from self.block(rest, env2, st2)
            else:
                yield (kind, val, env2, st2)

    def stmt(self, s, env, st):
        if isinstance(s, ast.Expr):
            if isinstance(s.value, ast.Constant):
                yield ("fall", None, env, st)
                return
            # local list mutation:  xs.append(v)  on a symbolic sequence (loop-havocked list)
            if (isinstance(s.value, ast.Call) and isinstance(s.value.func, ast.Attribute)
                    and s.value.func.attr in ("append",) and isinstance(s.value.func.value, ast.Name)
                    and isinstance(env.get(s.value.func.value.id), Sym) and isinstance(env[s.value.func.value.id].ty, SeqTy)):
                nm = s.value.func.value.id
                cur = env[nm]
                for v, st2 in self.expr(s.value.args[0], env, st):
                    if isinstance(v, Raised):
                        yield ("raise", v, env, st2)
                        continue
                    e2 = dict(env)
                    # append as a fresh sequence with explicit index facts (E-matching friendly)
                    c = z3.Const(fresh_name("appended"), cur.ty.sort)
                    ki = z3.Int(fresh_name("ai"))
                    n0 = z3.Length(cur.e)
                    ve = coerce(v, cur.ty.elem)
                    st2 = st2.assume(z3.Length(c) == n0 + 1, c[n0] == ve,
                                     z3.ForAll([ki], z3.Implies(z3.And(ki >= 0, ki < n0), c[ki] == cur.e[ki])))
                    e2[nm] = Sym(cur.ty, c)
                    yield ("fall", None, e2, st2)
                return
            # local list mutation:  xs.append(v)
            if (isinstance(s.value, ast.Call) and isinstance(s.value.func, ast.Attribute)
                    and s.value.func.attr in ("append",) and isinstance(s.value.func.value, ast.Name)
                    and isinstance(env.get(s.value.func.value.id), list)):
                nm = s.value.func.value.id
                for v, st2 in self.expr(s.value.args[0], env, st):
                    if isinstance(v, Raised):
                        yield ("raise", v, env, st2)
                        continue
                    e2 = dict(env)
                    e2[nm] = list(env[nm]) + [v]
                    yield ("fall", None, e2, st2)
                return
            for v, st2 in self.expr(s.value, env, st):
                if isinstance(v, Raised):
                    yield ("raise", v, env, st2)
                else:
                    yield ("fall", None, env, st2)
        elif isinstance(s, ast.Return):
            if s.value is None:
                yield ("ret", None, env, st)
                return
            for v, st2 in self.expr(s.value, env, st):
                if isinstance(v, Raised):
                    yield ("raise", v, env, st2)
                else:
                    yield ("ret", v, env, st2)
        elif isinstance(s, ast.Assign) and self._next_on_field(s.value, env) is not None:
            # x = next(self.<iterator field>) on a stateful object under contract: the field advances by one row
            nm, fld = self._next_on_field(s.value, env)
            rec = env[nm]
            it = rec.fields[fld]
            n_ = z3.Length(it.rows.e)
            pos = coerce(it.pos, IntT)
            for b, st2 in self.fork(st, pos < n_):
                if b:
                    e2 = dict(env)
                    f2 = dict(rec.fields)
                    f2[fld] = AbsIter(it.rows, Sym(IntT, pos + 1))
                    r2 = PyRecord(rec.cname, f2)
                    r2.mutable, r2.ftypes = True, rec.ftypes
                    e2[nm] = r2
                    for tgt in s.targets:
                        self.assign(tgt, Sym(it.rows.ty.elem, it.rows.e[pos]), e2, st2)
                    yield ("fall", None, e2, st2)
                else:
                    yield ("raise", Raised(ExcVal("StopIteration"), s.lineno), env, st2)
        elif isinstance(s, ast.Assign):
            for v, st2 in self.expr(s.value, env, st):
                if isinstance(v, Raised):
                    yield ("raise", v, env, st2)
                    continue
                e2 = dict(env)
                for tgt in s.targets:
                    r = self.assign(tgt, v, e2, st2)
                    if r is not None:
                        raise PyvcUnsupported("raising destructuring")
                yield ("fall", None, e2, st2)
        elif isinstance(s, ast.AnnAssign):
            if s.value is None:
                yield ("fall", None, env, st)
                return
            for v, st2 in self.expr(s.value, env, st):
                if isinstance(v, Raised):
                    yield ("raise", v, env, st2)
                    continue
                e2 = dict(env)
                self.assign(s.target, v, e2, st2)
                yield ("fall", None, e2, st2)
        elif isinstance(s, ast.AugAssign):
            if not isinstance(s.target, ast.Name):
                raise PyvcUnsupported("augmented assignment to non-name (frame: mutation)")
            cur = self.lookup(s.target.id, env)
            for v, st2 in self.expr(s.value, env, st):
                if isinstance(v, Raised):
                    yield ("raise", v, env, st2)
                    continue
                e2 = dict(env)
                e2[s.target.id] = self.binop(s.op, cur, v, st2)
                yield ("fall", None, e2, st2)
        elif isinstance(s, ast.If):
            for c, st2 in self.expr(s.test, env, st):
                if isinstance(c, Raised):
                    yield ("raise", c, env, st2)
                    continue
                for b, st3 in self.fork_truth(st2, c):
                    yield from self.block(s.body if b else s.orelse, env, st3)
        elif isinstance(s, ast.FunctionDef):
            e2 = dict(env)
            fv = FuncV(s, env.get("__module__"), cls=env.get("__class__"), closure=e2,
                       key=(env["__fn__"].key + "." + s.name) if env.get("__fn__") is not None and env["__fn__"].key else None)
            e2[s.name] = fv
            if self.capture is not None and fv.key == self.capture[0]:
                self.capture[1].append((fv, st))
                raise _Captured()
            yield ("fall", None, e2, st)
        elif isinstance(s, ast.Pass):
            yield ("fall", None, env, st)
        elif isinstance(s, ast.Raise):
            if s.exc is None:
                yield ("raise", Raised(ExcVal("reraise"), s.lineno), env, st)
                return
            for v, st2 in self.expr(s.exc, env, st):
                if isinstance(v, Raised):
                    yield ("raise", v, env, st2)
                elif isinstance(v, ExcVal):
                    yield ("raise", Raised(v, s.lineno), env, st2)
                elif isinstance(v, ClassV):
                    yield ("raise", Raised(ExcVal(v.ci.name), s.lineno), env, st2)
                elif isinstance(v, Sym) and isinstance(v.ty, ResultTy):
                    yield ("raise", Raised(ExcVal("Exception", v.ty.fail_val(v.e)), s.lineno), env, st2)
                elif isinstance(v, Sym) and (v.ty is ExcT or (isinstance(v.ty, OptTy) and v.ty.elem is ExcT)):
                    yield ("raise", Raised(ExcVal("Exception", v.e if v.ty is ExcT else v.ty.val(v.e)), s.lineno), env, st2)
                else:
                    raise PyvcUnsupported(f"raise of {v!r}")
        elif isinstance(s, ast.Assert):
            for c, st2 in self.expr(s.test, env, st):
                if isinstance(c, Raised):
                    yield ("raise", c, env, st2)
                    continue
                for b, st3 in self.fork_truth(st2, c):
                    if b:
                        yield ("fall", None, env, st3)
                    else:
                        yield ("raise", Raised(ExcVal("AssertionError"), s.lineno), env, st3)
        elif isinstance(s, ast.For):
            yield from self.for_stmt(s, env, st)
        elif isinstance(s, ast.While):
            yield from self.while_stmt(s, env, st)
        elif isinstance(s, ast.Continue):
            yield ("continue", None, env, st)
        elif isinstance(s, ast.Break):
            yield ("break", None, env, st)
        elif isinstance(s, ast.Try):
            yield from self.try_stmt(s, env, st)
        elif isinstance(s, ast.With):
            yield from self.with_stmt(s, env, st)
        elif isinstance(s, (ast.Import, ast.ImportFrom)):
            yield ("fall", None, env, st)
        elif isinstance(s, ast.Delete):
            raise PyvcUnsupported("del statement (frame: mutation)")
        else:
            raise PyvcUnsupported(f"statement {type(s).__name__} at line {getattr(s, 'lineno', '?')}")

    def _next_on_field(self, e, env):
        if (isinstance(e, ast.Call) and isinstance(e.func, ast.Name) and e.func.id == "next" and len(e.args) == 1
                and isinstance(e.args[0], ast.Attribute) and isinstance(e.args[0].value, ast.Name)):
            rec = env.get(e.args[0].value.id)
            if isinstance(rec, PyRecord) and getattr(rec, "mutable", False) and isinstance(rec.fields.get(e.args[0].attr), AbsIter):
                return e.args[0].value.id, e.args[0].attr
        return None

    def assign(self, tgt, v, env, st):
        if isinstance(tgt, ast.Name):
            env[tgt.id] = v
            return None
        if (isinstance(tgt, ast.Attribute) and isinstance(tgt.value, ast.Name) and isinstance(env.get(tgt.value.id), PyRecord)
                and getattr(env[tgt.value.id], "mutable", False)):
            # attribute store on a stateful object under contract (its state is threaded through the execution): rebinds
            # the path-local copy of the object with the field replaced
            rec = env[tgt.value.id]
            if tgt.attr not in rec.fields:
                raise PyvcUnsupported(f"store to undeclared field {tgt.attr} of {rec.cname}")
            ft = rec.ftypes.get(tgt.attr)
            f2 = dict(rec.fields)
            f2[tgt.attr] = Sym(ft, coerce(v, ft)) if isinstance(ft, Ty) else v
            r2 = PyRecord(rec.cname, f2)
            r2.mutable, r2.ftypes = True, rec.ftypes
            env[tgt.value.id] = r2
            return None
        if isinstance(tgt, (ast.Tuple, ast.List)):
            parts = self.destructure(v, len(tgt.elts))
            for t, x in zip(tgt.elts, parts):
                self.assign(t, x, env, st)
            return None
        if isinstance(tgt, ast.Attribute):
            # the only accepted attribute stores: exception chaining, and self-fields of reader objects (sidecar)
            if tgt.attr == "__cause__":
                return None
            raise PyvcUnsupported(f"attribute store .{tgt.attr} (frame: mutation of a value not created here)")
        if isinstance(tgt, ast.Subscript):
            arr_store = self.np_store(tgt, v, env, st)
            if arr_store:
                return None
            # store into a local dict literal under construction
            if isinstance(tgt.value, ast.Name) and isinstance(env.get(tgt.value.id), PyDict):
                raise PyvcUnsupported("subscript store into local dict (needs slice value)")
            raise PyvcUnsupported("subscript store (frame: mutation)")
        raise PyvcUnsupported(f"assign target {type(tgt).__name__}")

    def np_store(self, tgt, v, env, st):
        """stores into a numpy array the activation created itself (np.full): table[i][j] = v and table[mask] = v, as
        functional updates of the local binding; index expressions must evaluate without forking and be in range"""
        def single(e_):
            outs = list(self.expr(e_, env, st))
            if len(outs) != 1 or isinstance(outs[0][0], Raised):
                raise PyvcUnsupported("index expression of an array store forks or raises")
            return outs[0][0]
        base = tgt.value
        if isinstance(base, ast.Name) and isinstance(env.get(base.id), Sym) and isinstance(env[base.id].ty, NpArr2Ty):
            arr = env[base.id]
            k = single(tgt.slice)
            if isinstance(k, NpMask) and k.arr.e.eq(arr.e):
                i_, j_ = z3.Int(fresh_name("mi")), z3.Int(fresh_name("mj"))
                old = z3.Select(z3.Select(arr.e, i_), j_)
                new = z3.Lambda([i_], z3.Lambda([j_], z3.If(old == coerce(k.value, RealT), coerce(v, RealT), old)))
                env[base.id] = Sym(arr.ty, new)
                return True
            raise PyvcUnsupported("store of a whole row into a numpy array")
        if (isinstance(base, ast.Subscript) and isinstance(base.value, ast.Name) and isinstance(env.get(base.value.id), Sym)
                and isinstance(env[base.value.id].ty, NpArr2Ty)):
            arr = env[base.value.id]
            i_, j_ = coerce(single(base.slice), IntT), coerce(single(tgt.slice), IntT)
            ok = mkbool(z3.And(i_ >= 0, i_ < arr.ty.n, j_ >= 0, j_ < arr.ty.m))
            if not self.entails(st, ok):
                raise PyvcUnsupported("array store whose indices are not provably in range")
            env[base.value.id] = Sym(arr.ty, z3.Store(arr.e, i_, z3.Store(z3.Select(arr.e, i_), j_, coerce(v, RealT))))
            return True
        return False

    def destructure(self, v, n):
        if isinstance(v, (tuple, list)):
            if len(v) != n:
                raise PyvcUnsupported("destructuring arity mismatch")
            return list(v)
        if isinstance(v, Sym):
            if isinstance(v.ty, TupleTy) and len(v.ty.elems) == n:
                return [Sym(t, v.ty.get(v.e, i)) for i, t in enumerate(v.ty.elems)]
            if isinstance(v.ty, OptTy):
                return self.destructure(v_unwrap(v), n)
            if isinstance(v.ty, ClassTy) and self.repo.classes[v.ty.cname].is_namedtuple and len(v.ty.fields()) == n:
                return [v_getfield(v, f) for f, _ in v.ty.fields()]
        raise PyvcUnsupported(f"destructure {v!r} into {n}")

    # ---- loops
    def for_stmt(self, s, env, st):
        for it, st1 in self.expr(s.iter, env, st):
            if isinstance(it, Raised):
                yield ("raise", it, env, st1)
                continue
            items = self.iter_items(it, st1)
            if items is not None:
                yield from self.unrolled(s, items, 0, env, st1)
            else:
                yield from self.symbolic_for(s, it, env, st1)

    def iter_items(self, it, st):
        """meta-level element list if the iterable is literal"""
        xs = elems_of(it)
        if xs is not None:
            return xs
        pinned = getattr(self, "pinned", None)
        if pinned and isinstance(it, Sym) and isinstance(it.ty, SeqTy) and it.e.get_id() in pinned:
            # bounded stand-in: this argument's length is fixed to k (assumed as a precondition), its elements are seq[0..k)
            return [Sym(it.ty.elem, it.e[i]) for i in range(pinned[it.e.get_id()])]
        if isinstance(it, ClassV) and it.ci.is_enum:
            t = self.world.class_ty(it.ci.name)
            return [Sym(t, t.const(m)) for m in t.members]
        if isinstance(it, PyDict):
            return [k for k, _ in it.items]
        return None

    def unrolled(self, s, items, i, env, st):
        if i >= len(items):
            if s.orelse:
                yield from self.block(s.orelse, env, st)
            else:
                yield ("fall", None, env, st)
            return
        e2 = dict(env)
        self.assign(s.target, items[i], e2, st)
        for kind, val, env3, st3 in self.block(s.body, e2, st):
            if kind in ("fall", "continue"):
                yield from self.unrolled(s, items, i + 1, env3, st3)
            elif kind == "break":
                yield ("fall", None, env3, st3)
            else:
                yield (kind, val, env3, st3)

    def symbolic_for(self, s, it, env, st):
        """for over a symbolic Seq.  Supported without a sidecar invariant: the *search loop* shape —
        the body assigns no outer variable and files no report; it only returns/raises early.
        Encoding: either some first index i exits (all j<i fall through), or all fall through."""
        if not (isinstance(it, Sym) and isinstance(it.ty, SeqTy)):
            raise PyvcUnsupported(f"for over {it!r} needs a loop contract")
        ordinal = self.loop_ordinal(s, ast.For, env)
        spec = self.loop_specs.get((self.loop_key(env), "for", ordinal))
        if spec is not None:
            yield from self.contracted_for(s, it, env, st, spec, ordinal)
            return
        assigned = {n.id for b in s.body for n in ast.walk(b) if isinstance(n, ast.Name) and isinstance(n.ctx, ast.Store)}
        tnames = {n.id for n in ast.walk(s.target) if isinstance(n, ast.Name)}
        n = z3.Length(it.e)
        i = z3.Int(fresh_name("i"))
        elem = Sym(it.ty.elem, it.e[i])
        e2 = dict(env)
        self.assign(s.target, elem, e2, st)
        st_i = st.assume(i >= 0, i < n)
        falls, exits = [], []
        base_len = len(st_i.pc)
        for kind, val, env3, st3 in self.block(s.body, e2, st_i):
            extra = st3.pc[base_len:]
            if len(st3.qpc) != len(st_i.qpc):
                raise PyvcUnsupported("quantified fact inside a symbolic for body")
            if len(st3.reports) != len(st.reports):
                raise PyvcUnsupported("for over symbolic sequence files reports: needs a loop contract")
            if kind in ("fall", "continue"):
                changed = [a for a in assigned - tnames if a in env and env3.get(a) is not env.get(a)]
                if changed:
                    raise PyvcUnsupported(f"for over symbolic sequence assigns {changed}: needs a loop contract")
                falls.append(z3.And(*extra) if extra else z3.BoolVal(True))
            elif kind == "break":
                raise PyvcUnsupported("break in symbolic for")
            else:
                exits.append((kind, val, env3, extra))
        noexit_i = z3.Or(*falls) if falls else z3.BoolVal(False)
        j = z3.Int(fresh_name("j"))
        noexit_j = z3.substitute(noexit_i, (i, j))
        # all iterations fall through
        st_all = st.assume(z3.ForAll([j], z3.Implies(z3.And(j >= 0, j < n), noexit_j)))
        if s.orelse:
            yield from self.block(s.orelse, env, st_all)
        else:
            yield ("fall", None, env, st_all)
        for kind, val, env3, extra in exits:
            st_e = st.assume(i >= 0, i < n, *extra,
                             z3.ForAll([j], z3.Implies(z3.And(j >= 0, j < i), noexit_j)))
            if self.feasible(st_e.pc):
                yield (kind, val, env3, st_e)

    def contracted_for(self, s, it, env, st, spec, ordinal):
        """for over a symbolic sequence with a sidecar invariant Inv(vars, i, xs):
        (1) Inv(0) on entry  (2) Inv(i) /\ 0<=i<len, body => Inv(i+1)  (3) after the loop: Inv(len)"""
        from .spec import NS
        inv0 = spec["invariant"]
        props = spec.get("props", ())
        env0 = NS({k_: v_ for k_, v_ in env.items() if not k_.startswith("__")})
        if inv0.__code__.co_argcount == 4:
            inv = lambda v_, i_, xs_: inv0(v_, i_, xs_, env0)
        else:
            inv = inv0
        assigned = {n.id for b in s.body for n in ast.walk(b) if isinstance(n, ast.Name) and isinstance(n.ctx, ast.Store)}
        # lists grown with .append in the body are loop variables too
        assigned |= {n.func.value.id for b in s.body for n in ast.walk(b) if isinstance(n, ast.Call)
                     and isinstance(n.func, ast.Attribute) and n.func.attr == "append" and isinstance(n.func.value, ast.Name)}
        # local arrays written by subscript stores (table[i][j] = ...) are loop variables too
        for b in s.body:
            for n in ast.walk(b):
                if isinstance(n, (ast.Assign, ast.AugAssign)):
                    for t_ in (n.targets if isinstance(n, ast.Assign) else [n.target]):
                        while isinstance(t_, ast.Subscript):
                            t_ = t_.value
                            if isinstance(t_, ast.Name):
                                assigned.add(t_.id)
        tnames = {n.id for n in ast.walk(s.target) if isinstance(n, ast.Name)}
        assigned = sorted(v for v in assigned if v in env and v not in tnames)
        # literals get their declared loop type before the entry check
        env = dict(env)
        for v in assigned:
            t_ = spec.get("types", {}).get(v)
            if t_ is not None and not isinstance(env[v], Sym):
                env[v] = Sym(t_, coerce(env[v], t_))
        n = Sym(IntT, z3.Length(it.e))
        self.obligations.append(Obligation(f"{self.cur_key}.for{ordinal}.invariant_on_entry", "loop-inv", list(st.hyps),
                                           z3_bool(inv(NS(env), 0, it)), {"props": props}))
        e2 = dict(env)
        for v in assigned:
            t = spec.get("types", {}).get(v) or ty_of(env[v])
            if t is None:
                raise PyvcUnsupported(f"for loop variable {v} has no symbolic type")
            e2[v] = fresh(t, "loop_" + v)
        i = fresh(IntT, "loop_i")
        # (2) arbitrary iteration
        st_i = st.assume(inv(NS(e2), i, it), i >= 0, i < n)
        e3 = dict(e2)
        self.assign(s.target, Sym(it.ty.elem, it.e[i.e]), e3, st_i)
        for kind, val, e4, st4 in self.block(s.body, e3, st_i):
            if kind in ("fall", "continue"):
                self.obligations.append(Obligation(f"{self.cur_key}.for{ordinal}.invariant_preserved", "loop-inv", list(st4.hyps),
                                                   z3_bool(inv(NS(e4), i + 1, it)), {"props": props}))
            elif kind == "break":
                raise PyvcUnsupported("break inside a contracted for loop")
            else:
                yield (kind, val, e4, st4)
        # (3) after the loop
        st_x = st.assume(inv(NS(e2), n, it))
        if s.orelse:
            yield from self.block(s.orelse, e2, st_x)
        else:
            yield ("fall", None, e2, st_x)

    def loop_key(self, env=None):
        """key of the repo function whose body is being executed (loops of transparently executed callees carry their
        own contracts); taken from the environment, not from a dynamic stack (execution is generator based)"""
        fv = (env or {}).get("__fn__") if env is not None else None
        if fv is not None and getattr(fv, "key", None):
            return fv.key
        return self.cur_key

    def loop_ordinal(self, node, kinds, env=None):
        """ordinal of `node` among the loops of the function under execution (stable under unrelated edits)"""
        fn = None
        # the innermost repo function being executed is not tracked per statement; search the verified function
        k_ = self.loop_key(env)
        try:
            f, modpath, cls = self.repo.func(k_) if k_ else (None, None, None)
        except KeyError:
            f = None
        if f is None:
            return None
        n = 0
        for x in ast.walk(f):
            if isinstance(x, kinds):
                if x is node or (getattr(x, "lineno", None) == node.lineno and getattr(x, "col_offset", None) == node.col_offset):
                    return n
                n += 1
        return None

    def while_stmt(self, s, env, st):
        """while loop with a sidecar inductive invariant:
           (1) Inv holds on entry [obligation]  (2) Inv /\ guard, body => Inv [obligation per fall-through path]
           (3) continue after the loop from a havocked state with Inv /\ not guard."""
        ordinal = self.loop_ordinal(s, ast.While, env)
        spec = self.loop_specs.get((self.loop_key(env), "while", ordinal))
        if spec is None:
            raise PyvcUnsupported(f"while loop #{ordinal} at line {s.lineno} of {self.cur_key} needs a loop contract")
        inv = spec["invariant"]
        assigned = sorted({n.id for b in s.body for n in ast.walk(b) if isinstance(n, ast.Name) and isinstance(n.ctx, ast.Store)})
        assigned = [v for v in assigned if v in env]
        from .spec import NS
        # (1) entry
        self.obligations.append(Obligation(f"{self.cur_key}.while{ordinal}.invariant_on_entry", "loop-inv", list(st.hyps),
                                           z3_bool(inv(NS(env))), {"props": spec.get("props", ())}))
        # havoc
        e2 = dict(env)
        for v in assigned:
            t = ty_of(env[v])
            if t is None:
                raise PyvcUnsupported(f"while loop variable {v} has no symbolic type")
            if v in spec.get("types", {}):
                t = spec["types"][v]
            e2[v] = fresh(t, "loop_" + v)
        st_h = st.assume(inv(NS(e2)))
        for c, st_c in self.expr(s.test, e2, st_h):
            if isinstance(c, Raised):
                yield ("raise", c, e2, st_c)
                continue
            for b, st_b in self.fork_truth(st_c, c):
                if not b:
                    # (3) exit
                    if s.orelse:
                        yield from self.block(s.orelse, e2, st_b)
                    else:
                        yield ("fall", None, e2, st_b)
                    continue
                # (2) one arbitrary iteration
                for kind, val, e3, st3 in self.block(s.body, e2, st_b):
                    if kind in ("fall", "continue"):
                        self.obligations.append(Obligation(f"{self.cur_key}.while{ordinal}.invariant_preserved", "loop-inv",
                                                           list(st3.hyps), z3_bool(inv(NS(e3))), {"props": spec.get("props", ())}))
                        if "variant" in spec:
                            v0, v1 = spec["variant"](NS(e2)), spec["variant"](NS(e3))
                            self.obligations.append(Obligation(f"{self.cur_key}.while{ordinal}.variant_decreases", "loop-inv",
                                                               list(st3.hyps), z3_bool(v_and(v_cmp("<", v1, v0), v_cmp(">=", v0, 0))),
                                                               {"props": spec.get("props", ())}))
                    elif kind == "break":
                        raise PyvcUnsupported("break inside a contracted while loop")
                    else:
                        yield (kind, val, e3, st3)

    def try_stmt(self, s, env, st):
        if s.finalbody:
            raise PyvcUnsupported("try/finally")
        for kind, val, env2, st2 in self.block(s.body, env, st):
            if kind != "raise":
                if kind == "fall" and s.orelse:
                    yield from self.block(s.orelse, env2, st2)
                else:
                    yield (kind, val, env2, st2)
                continue
            # find a handler
            exc = val.exc
            handled = False
            for h in s.handlers:
                if self.handler_matches(h, exc, env):
                    e3 = dict(env)   # bindings made in the aborted try body are dropped conservatively
                    for k, v in env2.items():
                        e3.setdefault(k, v)
                    if h.name:
                        e3[h.name] = exc
                    yield from self.block(h.body, e3, st2)
                    handled = True
                    break
            if not handled:
                yield (kind, val, env2, st2)

    def handler_matches(self, h, exc, env):
        if h.type is None:
            return True
        names = [ast.unparse(t) for t in (h.type.elts if isinstance(h.type, ast.Tuple) else [h.type])]
        if "Exception" in names or "BaseException" in names:
            return True
        cls = exc.cls if isinstance(exc, ExcVal) else "Exception"
        if cls in names:
            return True
        if cls in self.repo.classes:
            return any(n in self.repo.mro(cls) for n in names)
        if cls == "KeyError" and "LookupError" in names:
            return True
        if cls == "Exception":
            # unknown dynamic class: cannot decide
            raise PyvcUnsupported("except clause over an exception of unknown class")
        return False

    def with_stmt(self, s, env, st):
        raise PyvcUnsupported("with statement")

    # ============================================================== expressions
    def bind(self, gen, f):
        for v, st in gen:
            if isinstance(v, Raised):
                yield v, st
            else:
                yield from f(v, st)

    def exprs(self, es, env, st):
        """evaluate a list of expressions left to right: yields (list, st)"""
        def go(i, acc, st):
            if i == len(es):
                yield acc, st
                return
            for v, st2 in self.expr(es[i], env, st):
                if isinstance(v, Raised):
                    yield v, st2
                else:
                    yield from go(i + 1, acc + [v], st2)
        yield from go(0, [], st)

    def expr(self, e, env, st):
        m = getattr(self, "e_" + type(e).__name__, None)
        if m is None:
            raise PyvcUnsupported(f"expression {type(e).__name__} at line {getattr(e, 'lineno', '?')}")
        yield from m(e, env, st)

    def e_Constant(self, e, env, st):
        yield e.value, st

    def e_JoinedStr(self, e, env, st):
        # the *text* of f-strings is dropped; embedded expressions are not evaluated (they only feed messages)
        yield Opaque("fstr"), st

    def e_Name(self, e, env, st):
        yield self.lookup(e.id, env), st

    def e_Tuple(self, e, env, st):
        if any(isinstance(x, ast.Starred) for x in e.elts):
            raise PyvcUnsupported("starred tuple")
        yield from self.bind(self.exprs(e.elts, env, st), lambda vs, st2: iter([(tuple(vs), st2)]))

    def e_List(self, e, env, st):
        yield from self.bind(self.exprs(e.elts, env, st), lambda vs, st2: iter([(list(vs), st2)]))

    def e_Set(self, e, env, st):
        yield from self.bind(self.exprs(e.elts, env, st), lambda vs, st2: iter([(PySet(vs), st2)]))

    def e_Dict(self, e, env, st):
        if any(k is None for k in e.keys):
            raise PyvcUnsupported("dict unpacking")
        def fin(vs, st2):
            n = len(e.keys)
            yield PyDict(list(zip(vs[:n], vs[n:]))), st2
        yield from self.bind(self.exprs(list(e.keys) + list(e.values), env, st), fin)

    # ---- comprehensions
    def _comp_unrolled(self, elt_fn, gens, env, st):
        """literal iterables: unroll; elt_fn(env, st) yields (value, st)"""
        def go(gi, env, st):
            if gi == len(gens):
                for v, st2 in elt_fn(env, st):
                    yield ([v] if not isinstance(v, Raised) else v), st2
                return
            g = gens[gi]
            if g.is_async:
                raise PyvcUnsupported("async comprehension")
            for it, st1 in self.expr(g.iter, env, st):
                if isinstance(it, Raised):
                    yield it, st1
                    continue
                items = self.iter_items(it, st1)
                if items is None:
                    raise _SymbolicIter(it, st1)

                def over(i, acc, st):
                    if i == len(items):
                        yield acc, st
                        return
                    e2 = dict(env)
                    self.assign(g.target, items[i], e2, st)

                    def conds(ci, st):
                        if ci == len(g.ifs):
                            yield True, st
                            return
                        for c, st2 in self.expr(g.ifs[ci], e2, st):
                            if isinstance(c, Raised):
                                yield c, st2
                                continue
                            for b, st3 in self.fork_truth(st2, c):
                                if b:
                                    yield from conds(ci + 1, st3)
                                else:
                                    yield False, st3
                    for ok_, st2 in conds(0, st):
                        if isinstance(ok_, Raised):
                            yield ok_, st2
                        elif not ok_:
                            yield from over(i + 1, acc, st2)
                        else:
                            for sub, st3 in go(gi + 1, e2, st2):
                                if isinstance(sub, Raised):
                                    yield sub, st3
                                else:
                                    yield from over(i + 1, acc + sub, st3)
                yield from over(0, [], st1)
        yield from go(0, env, st)

    def e_ListComp(self, e, env, st):
        try:
            yield from self._comp_unrolled(lambda env2, st2: self.expr(e.elt, env2, st2), e.generators, env, st)
        except _SymbolicIter as si:
            yield from self.symbolic_comp(e, si.it, env, si.st or st)

    def e_GeneratorExp(self, e, env, st):
        yield from self.e_ListComp(e, env, st)

    def e_SetComp(self, e, env, st):
        def fin(vs, st2):
            yield PySet(vs), st2
        yield from self.bind(self.e_ListComp(e, env, st), fin)

    def e_DictComp(self, e, env, st):
        def elt(env2, st2):
            def on(vs, st3):
                yield (vs[0], vs[1]), st3
            yield from self.bind(self.exprs([e.key, e.value], env2, st2), on)
        try:
            for vs, st2 in self._comp_unrolled(elt, e.generators, env, st):
                if isinstance(vs, Raised):
                    yield vs, st2
                else:
                    yield PyDict(vs), st2
        except _SymbolicIter as si:
            yield from self.symbolic_dictcomp(e, si.it, env, si.st or st)

    def symbolic_dictcomp(self, e, it, env, st):
        """{key(k): val(k) for k in <symbolic map keys / items> if cond}  ->  a lambda-defined finite map.
        Supported when the key expression is the iteration key itself."""
        from .builtins import MapView
        if len(e.generators) != 1:
            raise PyvcUnsupported("nested symbolic dict comprehension")
        g = e.generators[0]
        if isinstance(it, MapView):
            coll, kind = it.coll, it.kind
        elif isinstance(it, Sym) and isinstance(it.ty, MapTy):
            coll, kind = it, "keys"
        else:
            raise PyvcUnsupported(f"dict comprehension over {it!r}")
        mt = coll.ty
        k = z3.Const(fresh_name("dk"), mt.key.sort)
        ksym = Sym(mt.key, k)
        e2 = dict(env)
        if kind == "keys":
            self.assign(g.target, ksym, e2, st)
        elif kind == "values":
            self.assign(g.target, Sym(mt.val, mt.opt.val(z3.Select(coll.e, k))), e2, st)
        else:
            self.assign(g.target, (ksym, Sym(mt.val, mt.opt.val(z3.Select(coll.e, k)))), e2, st)
        indom = mt.opt.is_some(z3.Select(coll.e, k))
        st_k = st.assume(indom)
        base_len = len(st_k.pc)
        outs = []
        conds = list(g.ifs)

        def run(st_k):
            def cgo(ci, st):
                if ci == len(conds):
                    yield True, st
                    return
                for c, st2 in self.expr(conds[ci], e2, st):
                    if isinstance(c, Raised):
                        yield c, st2
                        continue
                    t = truth(c)
                    for c2, st3 in cgo(ci + 1, st2):
                        if isinstance(c2, Raised):
                            yield c2, st3
                        else:
                            yield v_and(t, c2), st3
            for c, st2 in cgo(0, st_k):
                if isinstance(c, Raised):
                    yield c, None, None, st2
                    continue
                for kv, st3 in self.exprs([e.key, e.value], e2, st2):
                    if isinstance(kv, Raised):
                        yield kv, None, None, st3
                    else:
                        yield c, kv[0], kv[1], st3
        normal = []
        for c, kk, vv, st2 in run(st_k):
            if isinstance(c, Raised):
                # an element raises: k is the (existential) witness in the path condition
                yield c, st2
                continue
            normal.append((c, kk, vv, st2))
        if len(normal) != 1:
            raise PyvcUnsupported("symbolic dict comprehension with forking element expression")
        c, kk, vv, st2 = normal[0]
        if len(st2.qpc) != len(st_k.qpc):
            raise PyvcUnsupported("symbolic dict comprehension whose element adds quantified constraints")
        extras = st2.pc[base_len:]
        if extras:
            # guards passed for the arbitrary key (e.g. `delta[k]` present): on the non-raising path they hold for
            # *every* key of the collection
            st = st.assume(z3.ForAll([k], z3.Implies(indom, z3.And(*extras))))
        if not (isinstance(kk, Sym) and kk.e.get_id() == k.get_id()):
            # computed key {f(x): g(x) for x in m...}: a fresh finite map R with  (1) every element's key is present
            # (with value g when g does not depend on the element: colliding keys then agree),  (2) every key of R comes
            # from an element (witness function)
            if not isinstance(kk, Sym):
                raise PyvcUnsupported("symbolic dict comprehension with a computed non-symbolic key")
            vt = ty_of(vv)
            rt = MapTy(kk.ty, vt)
            R_ = z3.Const(fresh_name("dcomp"), rt.sort)
            guard = z3.And(indom, z3_bool(c))
            vv_e = coerce(vv, vt)

            def mentions_k(x):
                if x.get_id() == k.get_id():
                    return True
                return any(mentions_k(ch) for ch in x.children()) if z3.is_app(x) else z3.is_quantifier(x)
            fact1 = rt.opt.is_some(z3.Select(R_, kk.e))
            if not mentions_k(vv_e):
                fact1 = z3.And(fact1, rt.opt.val(z3.Select(R_, kk.e)) == vv_e)
            ek = z3.Const(fresh_name("ek"), kk.ty.sort)
            w = z3.Function(fresh_name("dwit"), kk.ty.sort, mt.key.sort)
            back = z3.substitute(z3.And(guard, kk.e == ek), (k, w(ek)))
            st = st.assume(z3.ForAll([k], z3.Implies(guard, fact1)),
                           z3.ForAll([ek], z3.Implies(rt.opt.is_some(z3.Select(R_, ek)), back)))
            yield Sym(rt, R_), st
            return
        vt = ty_of(vv)
        rt = MapTy(mt.key, vt)
        body = z3.If(z3.And(indom, z3_bool(c)), rt.opt.some(coerce(vv, vt)), rt.opt.none())
        yield Sym(rt, z3.Lambda([k], body)), st

    def symbolic_comp(self, e, it, env, st):
        """[f(x) for x in <symbolic Seq>]  (no ifs): a fresh sequence constrained element-wise.
        With boolean elements the result can feed any()/all()."""
        from .builtins import QuantSeq
        if len(e.generators) != 1:
            raise PyvcUnsupported("nested symbolic comprehension")
        g = e.generators[0]
        if not (isinstance(it, Sym) and isinstance(it.ty, SeqTy)):
            raise PyvcUnsupported(f"comprehension over {it!r}")
        i = z3.Int(fresh_name("ci"))
        elem = Sym(it.ty.elem, it.e[i])
        e2 = dict(env)
        self.assign(g.target, elem, e2, st)
        st_i = st.assume(i >= 0, i < z3.Length(it.e))
        ri = getattr(self, "range_info", {}).get(it.e.get_id())
        if ri is not None and ri[0].eq(it.e):
            # the iterable is range(lo, hi, step): its i-th element is lo + i*step (instance of the range axiom at i)
            st_i = st_i.assume(it.e[i] == ri[1] + i * ri[2], z3.Length(it.e) == ri[3])
        guard = None
        outs = []
        for c_list, st_c in self.exprs(list(g.ifs), e2, st_i):
            if isinstance(c_list, Raised):
                raise PyvcUnsupported("raising condition in symbolic comprehension")
            gcond = v_and(*[truth(c) for c in c_list]) if c_list else True
            for v, st2 in self.expr(e.elt, e2, st_c):
                if isinstance(v, Raised):
                    raise PyvcUnsupported("raising element in symbolic comprehension")
                outs.append((gcond, v, st2))
        if len(outs) != 1 or len(outs[0][2].pc) != len(st_i.pc):
            raise PyvcUnsupported("symbolic comprehension with forking element expression")
        gcond, v, _ = outs[0]
        if ty_of(v) is BoolT or isinstance(v, bool):
            yield QuantSeq(it, i, z3_bool(v), None if gcond is True else z3_bool(gcond)), st
            return
        if gcond is not True:
            raise PyvcUnsupported("filtering comprehension over a symbolic sequence")
        vt = ty_of(v)
        if isinstance(v, tuple) and isinstance(e.elt, ast.Tuple):
            vt = TupleTy([ty_of(x) for x in v])      # a tuple literal per element: fixed arity, not a sequence
        out = z3.Const(fresh_name("comp"), z3.SeqSort(vt.sort))
        st2 = st.assume(z3.Length(out) == z3.Length(it.e),
                        z3.ForAll([i], z3.Implies(z3.And(i >= 0, i < z3.Length(it.e)), out[i] == coerce(v, vt))))
        yield Sym(SeqTy(vt), out), st2

    def e_Lambda(self, e, env, st):
        yield FuncV(e, env.get("__module__"), cls=env.get("__class__"), closure=dict(env)), st

    def e_IfExp(self, e, env, st):
        def on_test(c, st2):
            t = truth(c)
            if not isinstance(t, bool):
                m = self.try_merge(e, t, env, st2)
                if m is not None:
                    yield m, st2
                    return
            for b, st3 in self.fork_truth(st2, c):
                yield from self.expr(e.body if b else e.orelse, env, st3)
        yield from self.bind(self.expr(e.test, env, st), on_test)

    def try_merge(self, e, t, env, st):
        """`a if c else b` as a value (no fork) when each branch has exactly one feasible, non-raising, report-free
        outcome: the extra constraints of a unique feasible outcome are entailed, so they can be dropped"""
        outs = []
        for branch, cond in ((e.body, t), (e.orelse, v_not(t))):
            st_b = st.assume(cond)
            if not self.feasible(st_b.pc):
                return None
            try:
                rs = list(self.expr(branch, env, st_b))
            except PyvcUnsupported:
                return None
            if len(rs) != 1 or isinstance(rs[0][0], Raised) or len(rs[0][1].reports) != len(st.reports) or len(rs[0][1].qpc) != len(st_b.qpc):
                return None
            outs.append(rs[0][0])
        try:
            return merge_values(t, outs[0], outs[1])
        except PyvcUnsupported:
            return None

    def e_BoolOp(self, e, env, st):
        is_and = isinstance(e.op, ast.And)

        def go(i, st):
            def on(v, st2):
                if i == len(e.values) - 1:
                    yield v, st2
                    return
                for b, st3 in self.fork_truth(st2, v):
                    if is_and:
                        if b:
                            yield from go(i + 1, st3)
                        else:
                            yield v, st3
                    else:
                        if b:
                            yield v, st3
                        else:
                            yield from go(i + 1, st3)
            yield from self.bind(self.expr(e.values[i], env, st), on)
        yield from go(0, st)

    def e_UnaryOp(self, e, env, st):
        def on(v, st2):
            if isinstance(e.op, ast.Not):
                # no fork: `not x` is a value
                yield v_not(truth(v)), st2
            elif isinstance(e.op, ast.USub):
                yield v_arith("-", 0, v), st2
            elif isinstance(e.op, ast.UAdd):
                yield v, st2
            else:
                raise PyvcUnsupported("unary op")
        yield from self.bind(self.expr(e.operand, env, st), on)

    def e_BinOp(self, e, env, st):
        def on(vs, st2):
            l, r = vs
            if isinstance(e.op, (ast.Div, ast.FloorDiv, ast.Mod)):
                nz = v_not(v_eq(r, 0)) if isinstance(r, Sym) else (r != 0)
                st_ok, raises = self.guard(st2, nz, "ZeroDivisionError", e.lineno)
                yield from raises
                if st_ok is None:
                    return
                st2 = st_ok
            # an Optional operand: None raises TypeError, otherwise the operation is on the value
            for side in (0, 1):
                x = (l, r)[side]
                if isinstance(x, Sym) and isinstance(x.ty, OptTy):
                    st_ok, raises = self.guard(st2, v_not(v_is_none(x)), "TypeError", e.lineno)
                    yield from raises
                    if st_ok is None:
                        return
                    st2 = st_ok
                    if side == 0:
                        l = v_unwrap(x)
                    else:
                        r = v_unwrap(x)
            if isinstance(e.op, ast.Add) and isinstance(l, Sym) and isinstance(l.ty, SeqTy) and isinstance(r, (tuple, list)) and r:
                r = Sym(l.ty, coerce(list(r), l.ty))
            if isinstance(e.op, ast.Add) and isinstance(r, Sym) and isinstance(r.ty, SeqTy) and isinstance(l, (tuple, list)) and l:
                l = Sym(r.ty, coerce(list(l), r.ty))
            if (isinstance(e.op, ast.Add) and isinstance(l, Sym) and isinstance(r, Sym) and isinstance(l.ty, SeqTy)
                    and isinstance(r.ty, SeqTy) and l.ty.sort == r.ty.sort):
                # concatenation of two symbolic sequences: a fresh sequence with explicit index facts
                # (E-matching copes with these; it does not with seq.nth over seq.++)
                c = z3.Const(fresh_name("concat"), l.ty.sort)
                i = z3.Int(fresh_name("ki"))
                la, lb = z3.Length(l.e), z3.Length(r.e)
                xm = z3.Const(fresh_name("xm"), l.ty.elem.sort)
                st2 = st2.assume(mem_all_indices(c), z3.ForAll([xm], seq_mem_z3(c, xm) == z3.Or(seq_mem_z3(l.e, xm), seq_mem_z3(r.e, xm))))
                st2 = st2.assume(c == z3.Concat(l.e, r.e), z3.Length(c) == la + lb,
                                 z3.ForAll([i], z3.Implies(z3.And(i >= 0, i < la), c[i] == l.e[i])),
                                 z3.ForAll([i], z3.Implies(z3.And(i >= la, i < la + lb), c[i] == r.e[i - la])))
                yield Sym(l.ty, c), st2
                return
            yield self.binop(e.op, l, r, st2), st2
        yield from self.bind(self.exprs([e.left, e.right], env, st), on)

    def binop(self, op, l, r, st):
        sym = {ast.Add: "+", ast.Sub: "-", ast.Mult: "*", ast.Div: "/", ast.FloorDiv: "//", ast.Mod: "%", ast.Pow: "**"}.get(type(op))
        if sym is None:
            raise PyvcUnsupported(f"binop {type(op).__name__}")
        from .builtins import SecV
        if isinstance(l, SecV) or isinstance(r, SecV):
            if isinstance(l, SecV) and isinstance(r, SecV) and sym == "-" and l.kind == r.kind:
                return SecV("td", v_arith("-", l.sec, r.sec))
            if isinstance(l, SecV) and isinstance(r, SecV) and sym == "+" and "td" in (l.kind, r.kind) and (l.kind, r.kind) != ("dt", "dt"):
                return SecV("dt" if "dt" in (l.kind, r.kind) else "td", v_arith("+", l.sec, r.sec))
            if isinstance(l, SecV) and isinstance(r, SecV) and sym == "-" and (l.kind, r.kind) == ("dt", "td"):
                return SecV("dt", v_arith("-", l.sec, r.sec))
            raise PyvcUnsupported("arithmetic on datetime / timedelta values outside the seconds model")
        if isinstance(l, Opaque) or isinstance(r, Opaque):
            return Opaque("text")
        if isinstance(l, str) and sym == "%":
            return Opaque("text")
        if sym in ("//", "%") and isinstance(r, Sym):
            if not self.entails(st, v_cmp(">", r, 0)):
                raise PyvcUnsupported("// or % with a divisor not provably positive")
        if sym in ("//", "%") and isinstance(l, Sym) and isinstance(r, int) and r <= 0:
            raise PyvcUnsupported("// or % with non-positive constant divisor")
        return v_arith(sym, l, r)

    def e_Compare(self, e, env, st):
        def on(vs, st2):
            res = True
            for i, op in enumerate(e.ops):
                c = self.compare(op, vs[i], vs[i + 1], st2)
                res = c if res is True else v_and(res, c)
            yield res, st2
        yield from self.bind(self.exprs([e.left] + list(e.comparators), env, st), on)

    def compare(self, op, l, r, st):
        if isinstance(op, ast.Is):
            if r is None:
                return v_is_none(l)
            if l is None:
                return v_is_none(r)
            return v_eq(l, r)
        if isinstance(op, ast.IsNot):
            return v_not(self.compare(ast.Is(), l, r, st))
        if isinstance(op, ast.Eq) and isinstance(l, Sym) and isinstance(l.ty, NpArr2Ty):
            return NpMask(l, r)
        if isinstance(op, ast.Eq):
            return self.py_eq(l, r)
        if isinstance(op, ast.NotEq):
            return v_not(self.py_eq(l, r))
        if isinstance(op, ast.In):
            return self.contains(r, l)
        if isinstance(op, ast.NotIn):
            return v_not(self.contains(r, l))
        sym = {ast.Lt: "<", ast.LtE: "<=", ast.Gt: ">", ast.GtE: ">="}[type(op)]
        return v_cmp(sym, l, r)

    def py_eq(self, l, r):
        if isinstance(r, NameOfV) and not isinstance(l, NameOfV):
            l, r = r, l
        if isinstance(l, NameOfV):
            if isinstance(r, str):
                t = l.sym.ty
                if r in t.members():
                    return mkbool(self.world.recognizer(r)(l.sym.e))
                return False
            raise PyvcUnsupported("comparison of a class name with a non-literal")
        if isinstance(l, ClassV) and isinstance(r, ClassV):
            return l.ci.name == r.ci.name
        if isinstance(l, (ClassV, TypeRef, Builtin)) or isinstance(r, (ClassV, TypeRef, Builtin)):
            return False
        return v_eq(l, r)

    def contains(self, coll, x):
        if isinstance(x, NameOfV):
            # class name of a union value in a collection of strings: case split over the constructors
            t = x.sym.ty
            return v_or(*[v_and(mkbool(self.world.recognizer(m)(x.sym.e)), v_contains(coll, m.lower() if x.lower else m))
                          for m in t.members()])
        if isinstance(coll, PyDict):
            return v_or(*[v_eq(x, k) for k, _ in coll.items]) if coll.items else False
        return v_contains(coll, x)

    def e_Attribute(self, e, env, st):
        yield from self.bind(self.expr(e.value, env, st), lambda r, st2: self.getattr(r, e.attr, st2, e.lineno))

    def e_Subscript(self, e, env, st):
        def on_val(v, st2):
            if isinstance(v, (TypeRef, Builtin, ClassV)):
                # typing subscripts: immutables.Map[K, V], Tuple[...]  -> the head
                yield v, st2
                return
            if isinstance(e.slice, ast.Slice):
                def on_b(bs, st3):
                    lo = bs[0] if e.slice.lower is not None else None
                    hi = bs[-1] if e.slice.upper is not None else None
                    if e.slice.step is not None:
                        raise PyvcUnsupported("slice step")
                    if isinstance(v, Sym) and isinstance(v.ty, SeqTy):
                        n_ = Sym(IntT, z3.Length(v.e))
                        # python slice semantics with constant negative bounds: s[:-k] / s[-k:] (clamped at 0)
                        if isinstance(lo, int) and lo < 0:
                            lo = v_ite(v_cmp(">=", n_, -lo), v_arith("+", n_, lo), 0)
                        if isinstance(hi, int) and hi < 0:
                            hi = v_ite(v_cmp(">=", n_, -hi), v_arith("+", n_, hi), 0)
                    yield v_slice(v, lo, hi), st3
                parts = [p for p in (e.slice.lower, e.slice.upper) if p is not None]
                yield from self.bind(self.exprs(parts, env, st2), on_b)
                return
            yield from self.bind(self.expr(e.slice, env, st2), lambda k, st3: self.subscript(v, k, st3, e.lineno))
        yield from self.bind(self.expr(e.value, env, st), on_val)

    def subscript(self, v, k, st, where):
        if isinstance(v, PyDict):
            for val, st2 in self.pydict_lookup(v, k, st):
                if val is _MISSING:
                    yield Raised(ExcVal("KeyError"), where), st2
                else:
                    yield val, st2
            return
        if isinstance(v, (tuple, list)):
            if not isinstance(k, int):
                raise PyvcUnsupported("symbolic index into literal")
            if -len(v) <= k < len(v):
                yield v[k], st
            else:
                yield Raised(ExcVal("IndexError"), where), st
            return
        if isinstance(v, Sym):
            t = v.ty
            if isinstance(t, OptTy):
                st_ok, raises = self.guard(st, v_not(v_is_none(v)), "TypeError", where)
                yield from raises
                if st_ok is not None:
                    yield from self.subscript(v_unwrap(v), k, st_ok, where)
                return
            if isinstance(t, MapTy):
                st_ok, raises = self.guard(st, v_contains(v, k), "KeyError", where)
                yield from raises
                if st_ok is not None:
                    yield v_index(v, k), st_ok
                return
            if isinstance(t, SeqTy):
                n = Sym(IntT, z3.Length(v.e))
                if isinstance(k, int):
                    ok = v_cmp(">", n, k) if k >= 0 else v_cmp(">=", n, -k)
                else:
                    # python index semantics: -len <= k < len, a negative index counts from the end
                    ok = v_and(v_cmp(">=", k, v_arith("-", 0, n)), v_cmp("<", k, n))
                    if not self.entails(st, v_cmp(">=", k, 0)):
                        st_ok, raises = self.guard(st, ok, "IndexError", where)
                        yield from raises
                        if st_ok is not None:
                            kk = v_ite(v_cmp(">=", k, 0), k, v_arith("+", n, k))
                            yield v_index(v, kk), st_ok
                        return
                st_ok, raises = self.guard(st, ok, "IndexError", where)
                yield from raises
                if st_ok is not None:
                    yield v_index(v, k), st_ok
                return
            if isinstance(t, TupleTy):
                yield v_index(v, k), st
                return
            if isinstance(t, (NpArr2Ty, NpRowTy)):
                bound_ = t.n if isinstance(t, NpArr2Ty) else t.m
                ke = coerce(k, IntT)
                st_ok, raises = self.guard(st, mkbool(z3.And(ke >= 0, ke < bound_)), "IndexError", where)     # (negative indices not modelled)
                yield from raises
                if st_ok is not None:
                    yield (Sym(NpRowTy(t.m), z3.Select(v.e, ke)) if isinstance(t, NpArr2Ty) else Sym(RealT, z3.Select(v.e, ke))), st_ok
                return
            if isinstance(t, AbstractTy) and isinstance(k, str) and self.specs is not None \
                    and self.specs.iface_ret(t.base, f".[{k}]") is not None:
                # record-like dict of an abstract object (Report.report): a typed field per literal key declared in
                # the sidecar (R.attr(base, "[key]", ty)); a missing key raises KeyError unless `has` is entailed
                has = self.uf_apply(f"{t.base}.has[{k}]", [v], BoolT)
                st_ok, raises = self.guard(st, has, "KeyError", where)
                yield from raises
                if st_ok is not None:
                    yield self.uf_apply(f"{t.base}[{k}]", [v], self.specs.iface_ret(t.base, f".[{k}]")), st_ok
                return
        raise PyvcUnsupported(f"subscript on {v!r}")

    def pydict_lookup(self, d, k, st):
        """lookup in a dict literal; a symbolic key forks over the entries (later entries win)"""
        def go(i, st):
            if i < 0:
                yield _MISSING, st
                return
            kk, vv = d.items[i]
            c = v_eq(kk, k)
            for b, st2 in self.fork(st, c if isinstance(c, bool) else z3_bool(c)):
                if b:
                    yield vv, st2
                else:
                    yield from go(i - 1, st2)
        yield from go(len(d.items) - 1, st)

    # ---- attribute access
    def getattr(self, r, attr, st, where=None):
        if isinstance(r, Sym):
            yield from self.getattr_sym(r, attr, st, where)
        elif isinstance(r, ClassV):
            yield from self.getattr_class(r, attr, st)
        elif isinstance(r, ModV):
            if r.internal:
                rr = self.repo.resolve(r.name, attr)
                if rr is None:
                    sub = self.repo.module_path(r.name[:-3].replace("/", ".").replace(".__init__", "") + "." + attr)
                    if sub:
                        yield ModV(sub, internal=True), st
                        return
                    raise PyvcUnsupported(f"{r.name}.{attr} unresolved")
                yield self.from_resolved(rr, attr), st
            else:
                yield Builtin(f"{r.name}.{attr}"), st
        elif type(r).__name__ == "SecV":
            if r.kind == "td" and attr == "days":
                sec = r.sec if isinstance(r.sec, Sym) else lift(r.sec)
                yield Sym(IntT, z3.ToInt(z3.ToReal(sec.e) / 86400) if False else (sec.e / 86400)), st      # z3 integer division = floor for a positive divisor
            elif r.kind == "td" and attr == "seconds":
                sec = r.sec if isinstance(r.sec, Sym) else lift(r.sec)
                yield Sym(IntT, sec.e % 86400), st
            else:
                raise PyvcUnsupported(f"attribute {attr} of a datetime / timedelta value")
        elif isinstance(r, ExcVal):
            yield Opaque("excattr"), st
        elif isinstance(r, PyRecord):
            if attr in r.fields:
                yield r.fields[attr], st
            elif attr == "_replace":
                yield ValMethod(r, "_replace"), st
            else:
                fn, owner = self.repo.find_method(r.cname, attr)
                if fn is None:
                    raise PyvcUnsupported(f"attribute {attr} on record {r.cname}")
                fv = FuncV(fn, self.repo.classes[owner].path, cls=owner, key=f"{self.repo.classes[owner].path}::{owner}.{attr}")
                decs = [ast.unparse(d) for d in fn.decorator_list]
                if "property" in decs:
                    yield from self.call_value(BoundM(r, fv), [], {}, st, where)
                else:
                    yield BoundM(r, fv), st
        elif isinstance(r, Opaque):
            yield Builtin("opaque." + attr), st
        elif isinstance(r, (tuple, list, EmptyColl, PyDict, PySet, str)) or type(r).__name__ in ("SuccessV", "FailureV", "MapView", "DatetimeV"):
            yield ValMethod(r, attr), st
        elif isinstance(r, Builtin):
            yield Builtin(r.name + "." + attr), st
        elif r is None:
            yield Raised(ExcVal("AttributeError"), where), st
        elif isinstance(r, Report):
            if attr == "report_type":
                yield r.rtype, st
            elif attr == "report":
                yield r.fields, st
            else:
                raise PyvcUnsupported("report attr")
        elif isinstance(r, ClassOfV):
            if attr == "__name__":
                yield NameOfV(r.sym), st
            else:
                raise PyvcUnsupported(f"attribute {attr} on the class of a union value")
        elif isinstance(r, NameOfV):
            if attr == "lower":
                yield ValMethod(r, "lower"), st
            else:
                yield Builtin("opaque." + attr), st
        elif isinstance(r, FuncV) and attr == "__name__":
            yield getattr(r.node, "name", "<lambda>"), st
        else:
            raise PyvcUnsupported(f"attribute {attr} on {r!r}")

    def getattr_sym(self, r, attr, st, where):
        t = r.ty
        if isinstance(t, OptTy):
            st_ok, raises = self.guard(st, v_not(v_is_none(r)), "AttributeError", where)
            yield from raises
            if st_ok is not None:
                yield from self.getattr_sym(v_unwrap(r), attr, st_ok, where)
            return
        if isinstance(t, ClassTy):
            if attr == "__class__":
                yield ClassV(self.repo.classes[t.cname]), st
                return
            if t.has_field(attr):
                yield v_getfield(r, attr), st
                return
            if attr == "_replace" or attr == "_asdict":
                yield ValMethod(r, attr), st
                return
            fn, owner = self.repo.find_method(t.cname, attr)
            if fn is not None:
                decs = [ast.unparse(d) for d in fn.decorator_list]
                fv = FuncV(fn, self.repo.classes[owner].path, cls=owner, key=f"{self.repo.classes[owner].path}::{owner}.{attr}")
                fv.recv_class = t.cname
                if "property" in decs:
                    yield from self.call_value(BoundM(r, fv), [], {}, st, where)
                elif "classmethod" in decs:
                    yield BoundM(ClassV(self.repo.classes[t.cname]), fv), st
                elif "staticmethod" in decs:
                    yield fv, st
                else:
                    yield BoundM(r, fv), st
                return
            ci = self.repo.classes[t.cname]
            for n in self.repo.mro(t.cname):
                if attr in self.repo.classes[n].class_consts:
                    outs = list(self.expr(self.repo.classes[n].class_consts[attr], {"__module__": self.repo.classes[n].path}, st))
                    yield from outs
                    return
            yield Raised(ExcVal("AttributeError"), where), st
            return
        if isinstance(t, UnionTy):
            if attr == "__class__":
                yield ClassOfV(r), st
                return
            if self.specs is not None and (t.root, attr) in self.specs.virtuals and self.use_virtual:
                yield VirtualM(r, t.root, attr), st
                return
            # a data field every member declares with the same type: read it without forking
            ms = t.members()
            if all(ClassTy(self.world, m).has_field(attr) for m in ms):
                tys = {ClassTy(self.world, m).field_ty(attr).name for m in ms}
                if len(tys) == 1:
                    yield v_getfield(r, attr), st
                    return
            # fork over the constructors
            for m in t.members():
                rec = self.world.recognizer(m)(r.e)
                st2 = st.assume(rec)
                if not self.feasible(st2.pc):
                    continue
                yield from self.getattr_sym(Sym(ClassTy(self.world, m), r.e), attr, st2, where)
            return
        if isinstance(t, AbstractTy) or isinstance(t, FuncTy):
            yield from self.getattr_abstract(r, attr, st)
            return
        if isinstance(t, (MapTy, SetTy, SeqTy, ResultTy, TupleTy)) or t in (StrT, IntT, RealT):
            yield ValMethod(r, attr), st
            return
        if isinstance(t, EnumTy):
            if attr in ("value", "name"):
                yield Opaque("enum." + attr), st
                return
            fn, owner = self.repo.find_method(t.name, attr)
            if fn is not None:
                fv = FuncV(fn, self.repo.classes[owner].path, cls=owner)
                decs = [ast.unparse(d) for d in fn.decorator_list]
                if "property" in decs:
                    yield from self.call_value(BoundM(r, fv), [], {}, st, where)
                else:
                    yield BoundM(r, fv), st
                return
        if t is ExcT:
            yield Opaque("excattr"), st
            return
        raise PyvcUnsupported(f"attribute {attr} on {t}")

    def getattr_abstract(self, r, attr, st):
        base = r.ty.base if isinstance(r.ty, AbstractTy) else None
        if base == "Reporter" and attr in ("file_report", "flush", "close", "add_handler"):
            yield ValMethod(r, "file_report"), st
            return
        if base and base in self.repo.classes:
            fn, owner = self.repo.find_method(base, attr)
            if fn is not None:
                decs = [ast.unparse(d) for d in fn.decorator_list]
                if "property" in decs:
                    ret = self.world.ann_to_ty(fn.returns, self.repo.classes[owner].path) if fn.returns else AbstractTy("Any")
                    yield self.uf_apply(f"{base}.{attr}", [r], ret), st
                    return
                yield ValMethod(r, attr), st
                return
            # class-level constant (e.g. HaversineRoadNetwork._AVG_SPEED_KMPH)
            for n in self.repo.mro(base):
                if attr in self.repo.classes[n].class_consts:
                    yield from self.expr(self.repo.classes[n].class_consts[attr], {"__module__": self.repo.classes[n].path}, st)
                    return
            # sidecar-declared attribute type wins over the annotation
            if self.specs is not None and self.specs.iface_ret(base, "." + attr) is not None:
                yield self.uf_apply(f"{base}.{attr}", [r], self.specs.iface_ret(base, "." + attr)), st
                return
            # annotated attribute on the interface class
            for n in self.repo.mro(base):
                for fn_, ann, _ in self.repo.classes[n].own_fields:
                    if fn_ == attr:
                        yield self.uf_apply(f"{base}.{attr}", [r], self.world.ann_to_ty(ann, self.repo.classes[n].path)), st
                        return
        if self.specs is not None and base is not None and self.specs.iface_ret(base, "." + attr) is not None:
            yield self.uf_apply(f"{base}.{attr}", [r], self.specs.iface_ret(base, "." + attr)), st
            return
        yield ValMethod(r, attr), st

    def getattr_class(self, r, attr, st):
        ci = r.ci
        if ci.is_enum:
            t = self.world.class_ty(ci.name)
            if attr in t.members:
                yield Sym(t, t.const(attr)), st
                return
        if attr == "__name__":
            yield ci.name, st
            return
        fn, owner = self.repo.find_method(ci.name, attr) if ci.name in self.repo.classes else (None, None)
        if fn is not None:
            decs = [ast.unparse(d) for d in fn.decorator_list]
            fv = FuncV(fn, self.repo.classes[owner].path, cls=owner, key=f"{self.repo.classes[owner].path}::{owner}.{attr}")
            if "classmethod" in decs:
                yield BoundM(r, fv), st
            else:
                yield fv, st
            return
        if ci.name in self.repo.classes:
            for n in self.repo.mro(ci.name):
                c = self.repo.classes[n]
                if attr in c.class_consts:
                    yield from self.expr(c.class_consts[attr], {"__module__": c.path}, st)
                    return
        raise PyvcUnsupported(f"class attribute {ci.name}.{attr}")

    # ---- iteration of unordered collections: an arbitrary (unconstrained) ordering of the elements
    def enumerate_unordered(self, x, st, where):
        from .builtins import MapView
        kind = "set"
        if isinstance(x, MapView):
            kind, coll = x.kind, x.coll
        elif isinstance(x.ty, MapTy):
            kind, coll = "keys", x
        else:
            coll = x
        self.unordered_sites.append((self.cur_key, where, kind))
        if isinstance(coll.ty, SetTy):
            kt = coll.ty.elem
            mem = lambda k: z3.Select(coll.e, k)
        else:
            kt = coll.ty.key
            mem = lambda k: coll.ty.opt.is_some(z3.Select(coll.e, k))
        ks = z3.Const(fresh_name("order"), z3.SeqSort(kt.sort))
        k = z3.Const(fresh_name("k"), kt.sort)
        i, j = z3.Int(fresh_name("i")), z3.Int(fresh_name("j"))
        n = z3.Length(ks)
        facts = [z3.ForAll([k], z3.Contains(ks, z3.Unit(k)) == mem(k)),
                 z3.ForAll([i], z3.Implies(z3.And(0 <= i, i < n), mem(ks[i]))),
                 z3.ForAll([i, j], z3.Implies(z3.And(0 <= i, i < j, j < n), ks[i] != ks[j])),
                 n == card(coll)] + card_axioms_for([coll])
        facts.append(mem_all_indices(ks))
        facts.append(z3.ForAll([k], seq_mem_z3(ks, k) == mem(k)))
        facts.append(mem_has_position(ks, kt.sort))
        st2 = st.assume(*facts)
        if kind in ("set", "keys"):
            yield Sym(SeqTy(kt), ks), st2
            return
        vt = coll.ty.val
        if kind == "values":
            vs = z3.Const(fresh_name("vals"), z3.SeqSort(vt.sort))
            xv = z3.Const(fresh_name("xv"), vt.sort)
            kw = z3.Const(fresh_name("kw"), kt.sort)
            st2 = st2.assume(z3.Length(vs) == n,
                             z3.ForAll([i], z3.Implies(z3.And(0 <= i, i < n), vs[i] == coll.ty.opt.val(z3.Select(coll.e, ks[i])))),
                             mem_all_indices(vs),
                             z3.ForAll([xv], z3.Implies(seq_mem_z3(vs, xv), z3.Exists([kw], z3.And(
                                 mem(kw), coll.ty.opt.val(z3.Select(coll.e, kw)) == xv)))))
            yield Sym(SeqTy(vt), vs), st2
            return
        tt = TupleTy([kt, vt])
        its = z3.Const(fresh_name("items"), z3.SeqSort(tt.sort))
        st2 = st2.assume(z3.Length(its) == n,
                         z3.ForAll([i], z3.Implies(z3.And(0 <= i, i < n),
                                                   its[i] == tt.mk(ks[i], coll.ty.opt.val(z3.Select(coll.e, ks[i]))))))
        # position of a key in the item sequence (keys are distinct): KPOS(items, k) is the one index holding k
        kp = items_kpos_z3(its, k)
        st2 = st2.assume(z3.ForAll([k], z3.Implies(mem(k), z3.And(kp >= 0, kp < n, its[kp] == tt.mk(k, coll.ty.opt.val(z3.Select(coll.e, k)))))),
                         z3.ForAll([i], z3.Implies(z3.And(0 <= i, i < n), z3.And(items_kpos_z3(its, tt.get(its[i], 0)) == i,
                                                                                 mem(tt.get(its[i], 0))))))
        yield Sym(SeqTy(tt), its), st2

    # ---- uninterpreted functions for abstract objects / libraries
    def uf_apply(self, name, args, ret_ty):
        zs = []
        for a in args:
            a = lift(a) if not isinstance(a, Sym) else a
            zs.append(a.e)
        key = (name, tuple(str(z.sort()) for z in zs), ret_ty.name)
        if key not in self.uf_cache:
            self.uf_cache[key] = z3.Function(f"uf_{name}_{len(self.uf_cache)}", *[z.sort() for z in zs], ret_ty.sort)
        return Sym(ret_ty, self.uf_cache[key](*zs))

    # ============================================================== calls
    def e_Call(self, e, env, st):
        if any(isinstance(a, ast.Starred) for a in e.args):
            # zip(*sorted(...)) is the one starred call in the kernel
            if isinstance(e.func, ast.Name) and e.func.id == "zip" and len(e.args) == 1:
                def on(v, st2):
                    if isinstance(v, (list, tuple)):
                        if not v:
                            yield Raised(ExcVal("ValueError"), e.lineno), st2
                            return
                        yield tuple(tuple(col) for col in zip(*v)), st2
                        return
                    if not (isinstance(v, Sym) and isinstance(v.ty, SeqTy) and isinstance(v.ty.elem, TupleTy)):
                        raise PyvcUnsupported("zip(*x) of a non tuple-sequence")
                    # zip(*[]) == () : the unpacking that always follows raises ValueError (modelled here, conservatively)
                    st_ok, raises = self.guard(st2, Sym(BoolT, z3.Length(v.e) > 0), "ValueError", e.lineno)
                    yield from raises
                    if st_ok is None:
                        return
                    comps = []
                    i = z3.Int(fresh_name("zi"))
                    n = z3.Length(v.e)
                    for k, et in enumerate(v.ty.elem.elems):
                        c = z3.Const(fresh_name(f"unzip{k}"), z3.SeqSort(et.sort))
                        st_ok = st_ok.assume(z3.Length(c) == n,
                                             z3.ForAll([i], z3.Implies(z3.And(i >= 0, i < n), c[i] == v.ty.elem.get(v.e[i], k))))
                        comps.append(Sym(SeqTy(et), c))
                    yield tuple(comps), st_ok
                yield from self.bind(self.expr(e.args[0].value, env, st), on)
                return
            raise PyvcUnsupported("starred call")
        if any(k.arg is None for k in e.keywords):
            raise PyvcUnsupported("**kwargs call")

        def on_f(f, st1):
            def on_args(vs, st2):
                n = len(e.args)
                kw = {k.arg: v for k, v in zip(e.keywords, vs[n:])}
                yield from self.call_value(f, vs[:n], kw, st2, e.lineno, env)
            yield from self.bind(self.exprs(list(e.args) + [k.value for k in e.keywords], env, st1), on_args)
        yield from self.bind(self.expr(e.func, env, st), on_f)

    def call_value(self, f, args, kw, st, where=None, env=None):
        if isinstance(f, FuncV):
            yield from self.call_func(f, None, args, kw, st, where)
        elif isinstance(f, BoundM):
            yield from self.call_func(f.fn, f.recv, args, kw, st, where)
        elif type(f).__name__ == "PartialV":
            kw2 = dict(f.kw)
            kw2.update(kw)
            yield from self.call_value(f.fn, list(f.args) + list(args), kw2, st, where, env)
        elif isinstance(f, VirtualM):
            fn, owner = self.repo.find_method(f.root, f.name)
            bound = self.bind_params(fn, f.recv, args, kw, self.repo.classes[owner].path)
            cid = next(self.call_counter)
            self.unwrap_opt_args(fn, self.repo.classes[owner].path, {}, bound, st, f"{self.cur_key}.call{cid}@{where}.{f.root}.{f.name}", f"{f.root}.{f.name}")
            res, st2 = self.specs.virtual_apply(self, f.root, f.name, f.recv, bound, st, f"{self.cur_key}.call{cid}@{where}")
            yield res, st2
        elif isinstance(f, ClassV):
            yield from self.construct(f, args, kw, st, where)
        elif isinstance(f, Builtin):
            from . import builtins as B
            yield from B.call_builtin(self, f.name, args, kw, st, where, env)
        elif isinstance(f, ValMethod):
            from . import builtins as B
            yield from B.call_method(self, f.recv, f.name, args, kw, st, where)
        elif isinstance(f, TypeRef):
            if f.name == "cast":
                yield args[1], st
            else:
                raise PyvcUnsupported(f"call of type {f.name}")
        elif isinstance(f, Sym) and isinstance(f.ty, OptTy) and isinstance(f.ty.elem, (AbstractTy, FuncTy)):
            st_ok, raises = self.guard(st, v_not(v_is_none(f)), "TypeError", where)
            yield from raises
            if st_ok is not None:
                yield from self.call_value(v_unwrap(f), args, kw, st_ok, where, env)
        elif isinstance(f, Sym) and isinstance(f.ty, (AbstractTy, FuncTy)):
            # calling an abstract callable value
            ret = f.ty.ret if isinstance(f.ty, FuncTy) else AbstractTy("Any")
            yield self.uf_apply(f"call_{f.ty.name}", [f] + list(args), ret), st
        else:
            raise PyvcUnsupported(f"call of {f!r}")

    def bind_params(self, fn, recv, args, kw, modpath):
        a = fn.args
        if a.vararg or a.kwarg:
            raise PyvcUnsupported("*args/**kwargs parameters")
        params = [p.arg for p in a.posonlyargs + a.args]
        bound = {}
        pos = list(args)
        if recv is not None:
            pos = [recv] + pos
        if len(pos) > len(params):
            raise PyvcUnsupported(f"too many positional args for {getattr(fn, 'name', 'lambda')}")
        for p, v in zip(params, pos):
            bound[p] = v
        for k, v in kw.items():
            if k in bound:
                raise PyvcUnsupported("duplicate arg")
            bound[k] = v
        defaults = a.defaults
        dparams = params[len(params) - len(defaults):] if defaults else []
        for p, d in zip(dparams, defaults):
            if p not in bound:
                outs = list(self.expr(d, {"__module__": modpath}, St()))
                bound[p] = outs[0][0]
        for p, d in zip(a.kwonlyargs, a.kw_defaults):
            if p.arg not in bound and d is not None:
                outs = list(self.expr(d, {"__module__": modpath}, St()))
                bound[p.arg] = outs[0][0]
        missing = [p for p in params if p not in bound]
        if missing:
            raise PyvcUnsupported(f"missing args {missing} for {getattr(fn, 'name', 'lambda')}")
        return bound

    def call_func(self, fv, recv, args, kw, st, where):
        bound = self.bind_params(fv.node, recv, args, kw, fv.modpath)
        key = fv.key
        # abstract-method stubs on interface classes are never executed
        if self.specs is not None and key in self.opaque and self.specs.has(key) and key != self.cur_key:
            yield from self.call_opaque(key, fv, bound, st, where)
            return
        for out in self.run_function(fv, bound, st):
            if out.kind == "ret":
                yield out.val, out.st
            else:
                yield out.val, out.st     # Raised propagates

    def call_opaque(self, key, fv, bound, st, where):
        spec = self.specs.get(key)
        cid = next(self.call_counter)
        self.unwrap_opt_args(fv.node, fv.modpath, spec.arg_types, bound, st, f"{self.cur_key}.call{cid}@{where}.{key.split('::')[1]}", key)
        res, st2 = spec.apply_at_call(self, bound, st, f"{self.cur_key}.call{cid}@{where}")
        if st2 is None:
            return
        if spec.reports_fn is None:
            yield res, st2
            return
        from .spec import NS
        rt = self.world.class_ty("ReportType")
        todo = list(spec.reports_fn(NS(bound), res))

        def go(i, st):
            if i == len(todo):
                yield res, st
                return
            cond, rname, fields = todo[i]
            for b, st3 in self.fork(st, cond if isinstance(cond, bool) else z3_bool(cond)):
                if b:
                    yield from go(i + 1, st3.report(Report(Sym(rt, rt.const(rname)), dict(fields))))
                else:
                    yield from go(i + 1, st3)
        yield from go(0, st2)

    def unwrap_opt_args(self, fn_node, modpath, arg_types, bound, st, callid, key):
        """an Optional value passed where the callee declares a plain type: the caller has checked it
        (obligation `arg_not_none` otherwise); the contract sees the unwrapped value"""
        anns = {p.arg: p.annotation for p in fn_node.args.posonlyargs + fn_node.args.args + fn_node.args.kwonlyargs}
        for pname, val in list(bound.items()):
            if isinstance(val, Sym) and isinstance(val.ty, OptTy) and anns.get(pname) is not None:
                dt = arg_types.get(pname) or self.world.ann_to_ty(anns[pname], modpath)
                if dt is not None and not isinstance(dt, OptTy):
                    if not self.entails(st, v_not(v_is_none(val))):
                        self.obligations.append(Obligation(f"{callid}.arg_not_none.{pname}", "call-pre", list(st.hyps),
                                                           z3_bool(v_not(v_is_none(val))), {"callee": key}))
                    bound[pname] = v_unwrap(val)
            elif not isinstance(val, Sym) and anns.get(pname) is not None and isinstance(val, (tuple, list, EmptyColl, PyDict, PySet, int, float, bool, str)):
                # literal passed to a contract: give it the declared type
                dt = arg_types.get(pname) or self.world.ann_to_ty(anns[pname], modpath)
                if isinstance(dt, Ty) and not isinstance(dt, AbstractTy):
                    try:
                        bound[pname] = Sym(dt, coerce(val, dt))
                    except PyvcUnsupported:
                        pass

    def construct(self, cv, args, kw, st, where):
        ci = cv.ci
        name = ci.name
        if name in EXC_NAMES or self.world.class_ty(name) is ExcT:
            yield ExcVal(name), st
            return
        if name == "SimTime":
            yield v_int_trunc(args[0]) if isinstance(args[0], Sym) else int(args[0]), st
            return
        if name == "Report":
            vals = list(args)
            rt = kw.get("report_type", vals[0] if vals else None)
            fields = kw.get("report", vals[1] if len(vals) > 1 else None)
            yield Report(rt, fields), st
            return
        if not (ci.is_dataclass or ci.is_namedtuple):
            raise PyvcUnsupported(f"construction of non-data class {name}")
        flds = self.repo.fields(name)
        names = [f for f, _, _, _ in flds]
        vals = {}
        if len(args) > len(names):
            raise PyvcUnsupported("too many ctor args")
        for n, v in zip(names, args):
            vals[n] = v
        for k, v in kw.items():
            if k not in names:
                raise PyvcUnsupported(f"unknown field {k} for {name}")
            vals[k] = v
        for fn_, ann, dflt, owner in flds:
            if fn_ not in vals:
                if dflt is None:
                    yield Raised(ExcVal("TypeError"), where), st
                    return
                outs = list(self.expr(dflt, {"__module__": self.repo.classes[owner].path}, St()))
                vals[fn_] = outs[0][0]
        try:
            yield v_construct(self.world, name, vals), st
        except PyvcUnsupported:
            if self.world.union_root(name):
                raise
            yield PyRecord(name, vals), st


_MISSING = object()


def merge_values(c, a, b):
    if isinstance(a, (tuple, list)) and isinstance(b, (tuple, list)) and len(a) == len(b):
        return tuple(merge_values(c, x, y) for x, y in zip(a, b))
    if a is None and b is None:
        return None
    if isinstance(a, (Sym, int, float, bool, str)) or isinstance(b, (Sym, int, float, bool, str)) or a is None or b is None:
        if isinstance(a, (tuple, list)) or isinstance(b, (tuple, list)):
            raise PyvcUnsupported("merge of tuple and scalar")
        return v_ite(c, a, b)
    raise PyvcUnsupported("unmergeable values")


class _Captured(Exception):
    pass


class _SymbolicIter(Exception):
    def __init__(self, it, st=None):
        self.it, self.st = it, st


_EXC_CI = {}


def _exc_class(name):
    if name not in _EXC_CI:
        node = ast.parse(f"class {name}(Exception):\n    pass").body[0]
        from .repo import ClassInfo
        _EXC_CI[name] = ClassInfo(name, "<builtin>", node)
    return _EXC_CI[name]
