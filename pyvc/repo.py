"""Source index of /repo: every run re-reads the real files with ast.parse (no import, no cache).

Provides class/function/alias lookup with the module-level name resolution the executor needs.
"""
from __future__ import annotations
import ast, os, glob, hashlib

REPO_ROOT = os.environ.get("HIVE_REPO", "/repo")
PKG = "nrel/hive"


class ClassInfo:
    def __init__(self, name, path, node):
        self.name, self.path, self.node = name, path, node
        self.bases = [ast.unparse(b) for b in node.bases]
        decs = [ast.unparse(d) for d in node.decorator_list]
        self.is_dataclass = any(d.startswith("dataclass") for d in decs)
        self.frozen = any(d.replace(" ", "") == "dataclass(frozen=True)" for d in decs)
        self.is_namedtuple = "NamedTuple" in self.bases
        self.is_enum = "Enum" in self.bases
        self.own_fields = []  # (name, annotation ast, default ast|None)
        self.methods = {}
        self.class_consts = {}
        for st in node.body:
            if isinstance(st, ast.AnnAssign) and isinstance(st.target, ast.Name):
                self.own_fields.append((st.target.id, st.annotation, st.value))
            elif isinstance(st, (ast.FunctionDef,)):
                self.methods[st.name] = st
            elif isinstance(st, ast.Assign) and len(st.targets) == 1 and isinstance(st.targets[0], ast.Name):
                self.class_consts[st.targets[0].id] = st.value

    def __repr__(self):
        return f"<class {self.name}>"


class ModuleInfo:
    def __init__(self, path, src):
        self.path = path
        self.src = src
        self.tree = ast.parse(src)
        self.sha = hashlib.sha256(src.encode()).hexdigest()[:16]
        self.defs = {}      # name -> ('func', FunctionDef) | ('class', name) | ('assign', expr)
        self.imports = {}   # local name -> ('from', module_dotted, name) | ('module', dotted)
        self._index(self.tree.body)

    def _index(self, body):
        for st in body:
            if isinstance(st, ast.FunctionDef):
                self.defs[st.name] = ("func", st)
            elif isinstance(st, ast.ClassDef):
                self.defs[st.name] = ("class", st.name)
            elif isinstance(st, ast.Assign) and len(st.targets) == 1 and isinstance(st.targets[0], ast.Name):
                self.defs[st.targets[0].id] = ("assign", st.value)
            elif isinstance(st, ast.AnnAssign) and isinstance(st.target, ast.Name) and st.value is not None:
                self.defs[st.target.id] = ("assign", st.value)
            elif isinstance(st, ast.ImportFrom):
                for a in st.names:
                    self.imports[a.asname or a.name] = ("from", st.module, a.name)
            elif isinstance(st, ast.Import):
                for a in st.names:
                    self.imports[a.asname or a.name.split(".")[0]] = ("module", a.name if a.asname else a.name.split(".")[0])
            elif isinstance(st, ast.If):
                # `if TYPE_CHECKING:` imports
                self._index(st.body)
                self._index(st.orelse)
            elif isinstance(st, ast.Try):
                self._index(st.body)


class Repo:
    def __init__(self, root=None):
        self.root = root or REPO_ROOT
        self.modules = {}
        self.classes = {}
        for p in sorted(glob.glob(os.path.join(self.root, PKG, "**", "*.py"), recursive=True)):
            rel = os.path.relpath(p, self.root)
            if "/resources/" in rel:
                continue
            try:
                m = ModuleInfo(rel, open(p).read())
            except SyntaxError:
                continue
            self.modules[rel] = m
            for n in ast.walk(m.tree):
                if isinstance(n, ast.ClassDef):
                    if n.name in self.classes:
                        # keep the first; duplicates are reported by the caller if relevant
                        continue
                    self.classes[n.name] = ClassInfo(n.name, rel, n)
        self._subclasses = {}
        for c in self.classes.values():
            for b in c.bases:
                self._subclasses.setdefault(b.split("[")[0], []).append(c.name)

    # ---- modules
    def module_path(self, dotted):
        """dotted module name -> repo-relative path or None if external"""
        if dotted is None:
            return None
        rel = dotted.replace(".", "/")
        for cand in (rel + ".py", rel + "/__init__.py"):
            if cand in self.modules:
                return cand
        return None

    def resolve(self, modpath, name, _depth=0):
        """Resolve a global name inside module `modpath`.
        returns ('func', FunctionDef, modpath) | ('class', ClassInfo) | ('assign', expr, modpath)
              | ('extmodule', dotted) | ('extname', dotted, name) | None"""
        if _depth > 8:
            return None
        m = self.modules.get(modpath)
        if m is None:
            return None
        if name in m.defs:
            d = m.defs[name]
            if d[0] == "func":
                return ("func", d[1], modpath)
            if d[0] == "class":
                return ("class", self.classes[d[1]])
            return ("assign", d[1], modpath)
        if name in m.imports:
            imp = m.imports[name]
            if imp[0] == "module":
                mp = self.module_path(imp[1])
                if mp:
                    return ("module", mp)
                return ("extmodule", imp[1])
            _, mod, nm = imp
            mp = self.module_path(mod)
            if mp is None:
                return ("extname", mod, nm)
            # `from pkg import submodule`
            sub = self.module_path(mod + "." + nm)
            r = self.resolve(mp, nm, _depth + 1)
            if r is not None:
                return r
            if sub:
                return ("module", sub)
            # star-import chains
            return self._star(mp, nm, _depth + 1)
        return self._star(modpath, name, _depth + 1)

    def _star(self, modpath, name, depth):
        m = self.modules.get(modpath)
        if m is None or depth > 8:
            return None
        for st in ast.walk(m.tree):
            if isinstance(st, ast.ImportFrom) and any(a.name == "*" for a in st.names):
                mp = self.module_path(st.module)
                if mp:
                    r = self.resolve(mp, name, depth + 1)
                    if r is not None:
                        return r
                else:
                    if st.module == "typing":
                        return ("extname", "typing", name)
        return None

    # ---- classes
    def mro(self, cname):
        """linearised ancestors inside the repo (C3-ish: left-to-right depth-first, dedup keep last)"""
        out = []

        def go(n):
            c = self.classes.get(n)
            if c is None:
                return
            out.append(n)
            for b in c.bases:
                go(b.split("[")[0])
        go(cname)
        seen, res = set(), []
        for n in out:
            if n not in seen:
                seen.add(n)
                res.append(n)
        return res

    def fields(self, cname):
        """dataclass / NamedTuple field list in constructor order: (name, ann, default, owner)"""
        c = self.classes[cname]
        if c.is_namedtuple:
            return [(n, a, d, cname) for n, a, d in c.own_fields]
        # dataclass: walk MRO reversed, base fields first; redefinition keeps original slot
        order, info = [], {}
        for n in reversed(self.mro(cname)):
            ci = self.classes[n]
            if not (ci.is_dataclass or n == cname):
                continue
            for fn, ann, dflt in ci.own_fields:
                if fn not in info:
                    order.append(fn)
                info[fn] = (fn, ann, dflt, n)
        return [info[f] for f in order]

    def find_method(self, cname, mname):
        for n in self.mro(cname):
            ci = self.classes[n]
            if mname in ci.methods:
                return ci.methods[mname], n
        return None, None

    def concrete_subclasses(self, root):
        out = []

        def go(n):
            for s in self._subclasses.get(n, []):
                ci = self.classes[s]
                if ci.is_dataclass or ci.is_namedtuple:
                    out.append(s)
                go(s)
        go(root)
        return sorted(set(out))

    def is_subclass(self, cname, root):
        return root in self.mro(cname)

    def func(self, key):
        """key = 'path::func' | 'path::Class.method' | either followed by '.inner' for nested defs
        -> (FunctionDef, modpath, classname|None)"""
        path, q = key.split("#")[0].split("::")
        parts = q.split(".")
        node, modpath, cls = None, path, None
        if parts[0] in self.classes and len(parts) >= 2 and self.find_method(parts[0], parts[1])[0] is not None:
            fn, owner = self.find_method(parts[0], parts[1])
            node, modpath, cls = fn, self.classes[owner].path, parts[0]
            rest = parts[2:]
        else:
            m = self.modules[path]
            d = m.defs.get(parts[0])
            if not d or d[0] != "func":
                raise KeyError(key)
            node = d[1]
            rest = parts[1:]
        for name in rest:
            found = None
            for x in ast.walk(node):
                if isinstance(x, ast.FunctionDef) and x.name == name and x is not node:
                    found = x
                    break
            if found is None:
                raise KeyError(key)
            node = found
        return node, modpath, cls

    def outer_key(self, key):
        """for a nested-def key return the key of the outermost enclosing function, else None"""
        path, q = key.split("#")[0].split("::")
        parts = q.split(".")
        if parts[0] in self.classes and len(parts) >= 2 and self.find_method(parts[0], parts[1])[0] is not None:
            return f"{path}::{parts[0]}.{parts[1]}" if len(parts) > 2 else None
        return f"{path}::{parts[0]}" if len(parts) > 1 else None

    def source_hash(self, fn_node, modpath):
        seg = ast.get_source_segment(self.modules[modpath].src, fn_node) or ""
        return hashlib.sha256(seg.encode()).hexdigest()[:16]
