"""Lean lemma obligations: `lean lemmas/Lemmas.lean` is re-run on every check that uses a lemma."""
import os, subprocess, time, re

ROOT = os.path.dirname(os.path.dirname(os.path.abspath(__file__)))


def lean_obligations(pid, names, timeout=600):
    path = os.path.join(ROOT, "lemmas", "Lemmas.lean")
    src = open(path).read()
    t0 = time.time()
    try:
        p = subprocess.run(["lean", path], capture_output=True, text=True, timeout=timeout)
        ok = p.returncode == 0 and "error" not in p.stdout.lower() and "sorry" not in src
        detail = (p.stdout + p.stderr)[-400:]
    except Exception as e:  # noqa
        ok, detail = False, repr(e)
    secs = time.time() - t0
    out = []
    for n in names:
        present = re.search(r"theorem\s+" + re.escape(n) + r"\b", src) is not None
        out.append({"id": f"{pid}.lemma.{n}", "kind": "lemma", "status": "proved" if (ok and present) else "error",
                    "backend": "lean4+mathlib", "secs": round(secs / max(1, len(names)), 2), "props": [pid],
                    "detail": "" if (ok and present) else ("lemma missing" if not present else detail)})
    return out


def unused_param_obligation(repo, pid, key, param):
    """the fold step `key` does not read its index parameter (premise of lemma L4)"""
    import ast
    fn, modpath, cls = repo.func(key)
    used = any(isinstance(n, ast.Name) and n.id == param and isinstance(n.ctx, ast.Load) for n in ast.walk(fn))
    return {"id": f"{pid}.index_unused.{key}.{param}", "kind": "frame", "status": "refuted" if used else "proved",
            "backend": "ast-rule", "secs": 0.0, "props": [pid], "detail": f"step function reads its index parameter {param}" if used else ""}
