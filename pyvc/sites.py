"""C01: discovery and discharge of unordered-iteration sites (DESIGN 4 C01).

A *site* is a place where a value of unordered sort (immutables.Map view, frozenset/set, the sets returned by
h3.k_ring / h3.h3_to_children) is iterated.  Every site must be discharged by one of
  (a) sorted with a key that is injective on the collection (then L3),
  (c) an order-insensitive consumer (set/frozenset/dict building, len, in, any/all, min/max of values, ==),
  (d) an exemption the property grants (order of reports within a step; printing of a set-valued field),
  (b)/(t) a per-site justification recorded in the sidecar table (commuting point updates on distinct keys, at most
          one element, downstream sort under contract ...), each naming the obligations it rests on.
A site that is found but not discharged fails its obligation `C01.site.<function>.<source>`.
"""
from __future__ import annotations
import ast, re

SKIP_PREFIXES = ("nrel/hive/resources/", "nrel/hive/app/", "nrel/hive/initialization/", "nrel/hive/config/",
                 "nrel/hive/reporting/handler/", "nrel/hive/util/fs.py", "nrel/hive/util/io.py", "nrel/hive/custom/",
                 "nrel/hive/model/vehicle/mechatronics/powertrain/__init__", "nrel/hive/model/vehicle/mechatronics/powercurve/__init__",
                 "nrel/hive/model/vehicle/mechatronics/__init__", "nrel/hive/util/validation.py")
ITER_CONSUMERS = {"tuple", "list", "sorted", "map", "filter", "reduce", "zip", "enumerate", "sum", "min", "max", "any", "all",
                  "set", "frozenset", "join", "len", "dict", "Map", "iter", "next", "partition"}
ORDER_FREE = {"set", "frozenset", "len", "any", "all", "dict", "Map"}
TRANSPARENT = {"tuple", "list", "map", "filter", "zip", "enumerate", "iter"}
UNORDERED_LIB_CALLS = {"k_ring", "h3_to_children", "k_ring_distances", "hex_ring"}


def set_valued_attrs(repo):
    """attribute names annotated FrozenSet / Set in the class definitions of the repo"""
    out = set()
    for ci in repo.classes.values():
        for fn, ann, _ in ci.own_fields:
            txt = ast.unparse(ann) if not isinstance(ann, str) else ann
            if re.match(r"^['\"]?(typing\.)?(FrozenSet|Set|frozenset|set)\b", txt.strip()):
                out.add(fn)
    return out


def ordered_dict_names(fn):
    """locals / parameters that are python dicts (insertion ordered, hence deterministic when filled deterministically)"""
    out = set()
    for a in fn.args.posonlyargs + fn.args.args + fn.args.kwonlyargs:
        if a.annotation is not None and re.search(r"\bDict\b|\bdict\b", ast.unparse(a.annotation)):
            out.add(a.arg)
    for n in ast.walk(fn):
        if isinstance(n, (ast.Assign, ast.AnnAssign)):
            val = n.value
            tg = n.targets if isinstance(n, ast.Assign) else [n.target]
            if isinstance(val, (ast.Dict, ast.DictComp)) or (isinstance(val, ast.Call) and ast.unparse(val.func) in ("dict", "asdict", "d.copy")):
                for t in tg:
                    if isinstance(t, ast.Name):
                        out.add(t.id)
            if isinstance(val, ast.Call) and isinstance(val.func, ast.Attribute) and val.func.attr == "copy":
                for t in tg:
                    if isinstance(t, ast.Name):
                        out.add(t.id)
    return out


def parents_of(fn):
    par = {}
    for n in ast.walk(fn):
        for c in ast.iter_child_nodes(n):
            par[c] = n
    return par


def call_name(c):
    if isinstance(c.func, ast.Name):
        return c.func.id
    if isinstance(c.func, ast.Attribute):
        return c.func.attr
    return ""


def is_iterated(node, par):
    """is this expression used as an iterable?"""
    p = par.get(node)
    if isinstance(p, ast.For) and p.iter is node:
        return True
    if isinstance(p, ast.comprehension) and p.iter is node:
        return True
    if isinstance(p, ast.Call) and node in p.args and call_name(p) in ITER_CONSUMERS:
        return True
    if isinstance(p, ast.Starred):
        return True
    if isinstance(p, ast.Compare):
        return True
    return False


def unordered_locals(fn, set_attrs):
    """locals bound to an unordered value: x = obj.<set attr> / frozenset(...) / set(...) (possibly under if/else)"""
    out = set()

    def unordered_expr(e):
        if isinstance(e, ast.Attribute) and e.attr in set_attrs:
            return True
        if isinstance(e, ast.Call) and call_name(e) in ({"frozenset", "set"} | UNORDERED_LIB_CALLS):
            return True
        if isinstance(e, ast.IfExp):
            return unordered_expr(e.body) or unordered_expr(e.orelse)
        return False
    for n in ast.walk(fn):
        if isinstance(n, (ast.Assign, ast.AnnAssign)) and n.value is not None and unordered_expr(n.value):
            for t in (n.targets if isinstance(n, ast.Assign) else [n.target]):
                if isinstance(t, ast.Name):
                    out.add(t.id)
    return out


def find_sources(fn, set_attrs):
    par = parents_of(fn)
    odicts = ordered_dict_names(fn)
    ulocals = unordered_locals(fn, set_attrs)
    out = []
    for n in ast.walk(fn):
        if isinstance(n, ast.Call) and isinstance(n.func, ast.Attribute) and n.func.attr in ("keys", "values", "items") and not n.args:
            recv = n.func.value
            if isinstance(recv, ast.Name) and recv.id in odicts:
                continue
            if isinstance(recv, ast.Attribute) and recv.attr in ("report",):
                continue        # Report.report is a plain dict
            out.append((n, par))
        elif isinstance(n, ast.Call) and call_name(n) in UNORDERED_LIB_CALLS:
            out.append((n, par))
        elif isinstance(n, (ast.Attribute, ast.Name)):
            nm = n.attr if isinstance(n, ast.Attribute) else n.id
            hit = (isinstance(n, ast.Attribute) and nm in set_attrs) or (isinstance(n, ast.Name) and nm in ulocals)
            if hit and isinstance(getattr(n, "ctx", None), ast.Load) and is_iterated(n, par) and not isinstance(par.get(n), ast.Compare):
                p = par.get(n)
                if isinstance(p, ast.Call) and call_name(p) in ("len",):
                    continue
                out.append((n, par))
        elif (isinstance(n, ast.Call) and call_name(n) in ("set", "frozenset") and n.args and isinstance(par.get(n), ast.Assign)
              and any(isinstance(t, (ast.Tuple, ast.List)) for t in par[n].targets)):
            out.append((n, par))          # a, b = frozenset(...): destructuring in iteration order
        elif isinstance(n, ast.Call) and call_name(n) in ("set", "frozenset") and n.args and is_iterated(n, par):
            p = par.get(n)
            if isinstance(p, (ast.Compare,)) or (isinstance(p, ast.Call) and call_name(p) in ORDER_FREE | {"sorted"}):
                continue
            out.append((n, par))
    return out


def injective_key(key, src):
    """rule (a): is the sort key syntactically one of the injective shapes?"""
    kind = src.func.attr if isinstance(src, ast.Call) and isinstance(src.func, ast.Attribute) else None
    if kind not in ("keys", "values", "items"):
        kind = None
    if key is None:
        return kind in ("keys", "items", None) and kind != "values", "no key: the elements are map keys / (key, value) pairs (keys are unique)"
    if isinstance(key, ast.Lambda):
        body = key.body
        arg = key.args.args[0].arg if key.args.args else None
        txt = ast.unparse(body)
        if kind == "items" and txt == f"{arg}[0]":
            return True, "key = the map key"
        last = body.elts[-1] if isinstance(body, ast.Tuple) and body.elts else body
        lt = ast.unparse(last)
        if lt in (f"{arg}.id", f"{arg}[0]") or lt.endswith(".id"):
            return True, "key ends with the entity id / map key (unique)"
    return False, "sort key not recognised as injective"


def classify(node, par):
    """-> (status, rule, why)"""
    cur = node
    chain = []
    while True:
        p = par.get(cur)
        if p is None:
            break
        if isinstance(p, ast.comprehension):
            comp = par.get(p)
            if isinstance(comp, (ast.DictComp, ast.SetComp)):
                return "proved", "c", "builds a dict/set element-wise (unordered result)"
            cur = comp
            chain.append(type(comp).__name__)
            continue
        if isinstance(p, ast.Call):
            nm = call_name(p)
            if nm == "sorted" and cur in p.args:
                key = next((k.value for k in p.keywords if k.arg == "key"), None)
                ok, why = injective_key(key, node)
                return ("proved" if ok else "undischarged"), "a", "sorted: " + why
            if nm in ORDER_FREE and (cur in p.args):
                return "proved", "c", f"consumed by {nm}() (order-insensitive)"
            if nm in ("min", "max") and cur in p.args:
                if any(k.arg == "key" for k in p.keywords):
                    return "undischarged", "-", f"{nm}(key=...) over an unordered collection: ties are broken by iteration order"
                return "proved", "c", f"{nm}() of values (a tie yields the same value)"
            if nm in TRANSPARENT and cur in p.args:
                cur = p
                chain.append(nm)
                continue
            if nm in ("union", "difference", "intersection", "issubset") and (cur in p.args or p.func is par.get(cur)):
                return "proved", "c", f"set operation .{nm}()"
            if nm in ("reduce",):
                return "undischarged", "b", "fold over an unordered collection (needs a commutativity argument)"
            break
        if isinstance(p, ast.Compare):
            return "proved", "c", "membership / equality test"
        if isinstance(p, (ast.BinOp, ast.Starred, ast.IfExp)):
            cur = p
            continue
        if isinstance(p, ast.Attribute) and isinstance(par.get(p), ast.Call) and par[p].func is p and p.attr in ("union", "difference", "intersection", "join"):
            if p.attr == "join":
                return "undischarged", "d?", "string join over an unordered collection"
            cur = par[p]
            return "proved", "c", f"set operation .{p.attr}()"
        if isinstance(p, ast.For):
            return "undischarged", "-", "for loop over an unordered collection"
        if isinstance(p, ast.Assign) and any(isinstance(t, (ast.Tuple, ast.List)) for t in p.targets):
            return "undischarged", "-", "destructuring assignment from an unordered collection"
        break
    return "undischarged", "-", "order-sensitive consumer: " + ">".join(chain[-3:])


def scan(repo):
    set_attrs = set_valued_attrs(repo)
    out = []
    for path, m in sorted(repo.modules.items()):
        if path.startswith(SKIP_PREFIXES):
            continue
        items = []
        for node in m.tree.body:
            if isinstance(node, ast.FunctionDef):
                items.append((node.name, node))
            elif isinstance(node, ast.ClassDef):
                items += [(f"{node.name}.{st.name}", st) for st in node.body if isinstance(st, ast.FunctionDef)]
        for qual, fn in items:
            seen = {}
            for node, par in find_sources(fn, set_attrs):
                txt = ast.unparse(node)
                k = seen.get(txt, 0)
                seen[txt] = k + 1
                status, rule, why = classify(node, par)
                out.append({"path": path, "function": qual, "source": txt, "ordinal": k, "line": node.lineno,
                            "status": status, "rule": rule, "why": why})
    return out
