"""Verification driver: execute a function under its contract, generate and discharge obligations."""
from __future__ import annotations
import ast, time, traceback, os, subprocess, tempfile
import z3
from .tys import *
from .values import *
from .exec import Exec, St, Obligation, FuncV, ClassV
from .spec import NS, normalize


class ObResult:
    def __init__(self, oid, kind, status, backend, secs, props=(), detail="", model=None, meta=None):
        self.oid, self.kind, self.status, self.backend, self.secs = oid, kind, status, backend, secs
        self.props, self.detail, self.model, self.meta = tuple(props), detail, model, meta or {}

    def to_json(self):
        d = {"id": self.oid, "kind": self.kind, "status": self.status, "backend": self.backend,
             "secs": round(self.secs, 4), "props": list(self.props)}
        if self.detail:
            d["detail"] = self.detail[:2000]
        if self.model:
            d["model"] = self.model[:6000]
        if self.meta:
            d["meta"] = {k: (v if isinstance(v, (int, float, str, bool, list, dict, type(None))) else str(v)) for k, v in self.meta.items()}
        return d


def uuid_freshness(fresh_consts, formulas):
    """uuid4() returns a value that occurs nowhere in the input: distinct from every UUID-sorted term of the query
    that is not built from a fresh uuid (modelling assumption, DESIGN 2.1)"""
    if not fresh_consts:
        return []
    from .inst import ground_terms
    srt = fresh_consts[0].sort()
    ids = {c.get_id() for c in fresh_consts}

    def uses_fresh(t):
        stack = [t]
        while stack:
            x = stack.pop()
            if x.get_id() in ids:
                return True
            stack.extend(x.children())
        return False
    out = []
    terms = ground_terms(formulas, {srt}).get(srt, [])
    for i_, c in enumerate(fresh_consts):
        for t in terms:
            if not uses_fresh(t):
                out.append(c != t)
        for d in fresh_consts[i_ + 1:]:
            out.append(c != d)
    return out


def _ematch(hyps, g, axioms, timeout_ms):
    se = z3.Solver()
    se.set("smt.mbqi", False)
    se.set("smt.auto_config", False)
    for a_ in axioms:
        se.add(a_)
    se.add(*hyps)
    se.add(z3.Not(g))
    from .inst import guarded_check
    return guarded_check(se, timeout_ms, "ematch") == z3.unsat


PHASE = ["first"]      # "first": E-matching, pointwise instantiation (1 round), finite-universe refutation, full z3
                       # "retry": E-matching, pointwise instantiation with the doubled budget (thorough tier: also a second
                       #          instantiation round and cvc5)


def solve(hyps, goal, axioms=(), timeout_ms=10000, want_model=True):
    """returns (status, backend, secs, model_text, model).  status: proved | refuted | unknown.
    The goal is skolemised and split into conjuncts; each conjunct goes through: E-matching (MBQI off),
    pointwise instantiation, finite-universe refutation, full z3, cvc5."""
    from .inst import pointwise_check, skolemize_goal
    from . import budget as _b0
    wall0 = _b0.WALL_HIT[0]
    t0 = time.time()
    hyps = list(hyps)
    if mentions_decl(hyps + [goal], "str_lt"):
        hyps = hyps + str_order_quantified()
    hyps = hyps + union_axioms()
    qf = [h for h in hyps if not has_quant(h)]
    qh = [h for h in hyps if has_quant(h)]
    quantified = bool(qh) or has_quant(goal)
    backends = set()
    goals = skolemize_goal(goal) if quantified else [goal]
    for g in goals:
        done = False
        if quantified:
            try:
                if _ematch(hyps, g, axioms, timeout_ms):
                    backends.add("ematching")
                    continue
            except z3.Z3Exception:
                pass
            # second-line provers (two instantiation rounds, cvc5) only in the thorough tier's retry: on the unchanged tree no
            # obligation needs them, and they double the cost of every failing obligation
            deep = PHASE[0] == "retry" and timeout_ms >= 50000
            for rounds in ((1, 2) if deep else (1,)):
                try:
                    r = pointwise_check(qf, qh, g, axioms, timeout_ms, rounds=rounds)
                except z3.Z3Exception:
                    r = "unknown"
                if r == "unsat":
                    backends.add(f"pointwise{rounds}")
                    done = True
                    break
            if done:
                continue
            from .finite import finite_refute
            fr = finite_refute(hyps, g, axioms, timeout_ms=timeout_ms) if PHASE[0] == "first" else None
            if fr is not None:
                mt, m, ctx, n = fr
                return "refuted", f"z3-{z3.get_version_string()}-finite-universe{n}", time.time() - t0, mt, m
        s = z3.Solver()
        for a in axioms:
            s.add(a)
        for h in hyps:
            s.add(h)
        s.add(z3.Not(g))
        from .inst import cli_check
        if PHASE[0] == "first" or not quantified:
            r, mtxt = cli_check(s, timeout_ms, want_model=True, stage="full")
            if r == "unsat":
                backends.add("full")
                continue
            if r == "sat":
                return "refuted", "z3-" + z3.get_version_string(), time.time() - t0, mtxt[:6000], None
        elif timeout_ms >= 50000:
            # second opinion (thorough tier's retry only): cvc5 on the SMT-LIB text
            st2, secs2 = cvc5_check(s.to_smt2(), timeout_ms)
            if st2 == "unsat":
                backends.add("cvc5")
                continue
        from . import budget as _b
        if _b.WALL_HIT[0] > wall0:
            return "timeout", "z3+cvc5 (wall-clock safety net fired: not a verdict)", time.time() - t0, "", None
        return "unknown", "z3+cvc5", time.time() - t0, "resource budget exhausted", None
    be = "z3-" + z3.get_version_string() + ("-" + "+".join(sorted(backends)) if backends else "")
    return "proved", be, time.time() - t0, None, None


def cvc5_check(smt, timeout_ms):
    from . import budget
    t0 = time.time()
    cpu0 = budget.children_cpu()
    path = None
    try:
        with tempfile.NamedTemporaryFile("w", suffix=".smt2", delete=False) as f:
            f.write("(set-logic ALL)\n" + smt)
            path = f.name
        wall = budget.wall_ms(timeout_ms, "cvc5")
        p = subprocess.run(["/usr/bin/cvc5", f"--rlimit={budget.rl(timeout_ms, 'cvc5')}", f"--tlimit={wall}", path],
                           capture_output=True, text=True, timeout=wall / 1000 + 10,
                           preexec_fn=budget.limit_cpu(budget.cpu_s(timeout_ms, "cvc5")))
        out = p.stdout.strip().splitlines()
        res = out[0] if out else "error"
        if res not in ("sat", "unsat") and (time.time() - t0) * 1000 >= wall * 0.95 and budget.stopped_by_wall_clock(cpu0, timeout_ms, "cvc5", t0):
            budget.wall_hit("cvc5")
        budget.log("cvc5", res, 0, time.time() - t0, budget.rl(timeout_ms, "cvc5"))
        return res, time.time() - t0
    except subprocess.TimeoutExpired:
        if budget.stopped_by_wall_clock(cpu0, timeout_ms, "cvc5", t0):
            budget.wall_hit("cvc5")
        return "error", time.time() - t0
    except Exception as e:  # noqa
        return "error", time.time() - t0
    finally:
        if path:
            try:
                os.unlink(path)
            except OSError:
                pass


def model_text(m):
    lines = []
    for d in m.decls():
        nm = d.name()
        if nm.startswith("uf_") or "!" in nm or nm.startswith("str_") or nm.startswith("card_"):
            try:
                lines.append(f"{nm} = {m[d]}")
            except Exception:  # noqa
                pass
    return "\n".join(sorted(lines))


class FnReport:
    def __init__(self, key):
        self.key = key
        self.paths = 0
        self.raise_paths = 0
        self.results = []        # ObResult
        self.status = "ok"       # ok | out-of-reach | error
        self.detail = ""
        self.src_hash = ""
        self.secs = 0.0
        self.solver_calls = 0
        self.iface_used = []
        self.path_samples = []

    def to_json(self):
        return {"key": self.key, "paths": self.paths, "raise_paths": self.raise_paths, "status": self.status,
                "detail": self.detail[:1500], "src_hash": self.src_hash, "secs": round(self.secs, 3),
                "feasibility_queries": self.solver_calls, "assumed_interfaces": self.iface_used,
                "obligations": [r.to_json() for r in self.results]}


def make_args(ex, key, spec):
    """fresh symbolic arguments from the real signature (annotations) or the sidecar's arg_types"""
    fn, modpath, cls = ex.repo.func(key)
    real_cls = cls
    if ex.repo.outer_key(key) is not None:
        cls = None      # a nested def has no implicit receiver
    decs = [ast.unparse(d) for d in fn.decorator_list]
    args = {}
    params = [p.arg for p in fn.args.posonlyargs + fn.args.args + fn.args.kwonlyargs]
    anns = {p.arg: p.annotation for p in fn.args.posonlyargs + fn.args.args + fn.args.kwonlyargs}
    first = True
    for p in params:
        if first and cls is not None and "staticmethod" not in decs:
            first = False
            if "classmethod" in decs:
                args[p] = ClassV(ex.repo.classes[cls])
                continue
            if p in spec.arg_types:
                args[p] = spec.arg_types[p] if not isinstance(spec.arg_types[p], Ty) else fresh(spec.arg_types[p], p)
                continue
            if getattr(spec, "mutable_self", None):
                from .exec import PyRecord, AbsIter
                flds = {}
                for fname, ft in spec.mutable_self.items():
                    if isinstance(ft, tuple) and ft[0] == "iterator":
                        flds[fname] = AbsIter(fresh(ft[1], f"{p}_{fname}_rows"), fresh(IntT, f"{p}_{fname}_pos"))
                    else:
                        flds[fname] = fresh(ft, f"{p}_{fname}")
                rec = PyRecord(cls, flds)
                rec.mutable = True
                rec.ftypes = {k: v for k, v in spec.mutable_self.items() if isinstance(v, Ty)}
                args[p] = rec
                continue
            ct = ex.world.class_ty(cls)
            if isinstance(ct, ClassTy) and ct.root:
                # member of a closed union: constructor application over fresh fields
                flds = {f: fresh(t, f"{p}_{f}") for f, t in ct.fields()}
                args[p] = v_construct(ex.world, cls, flds)
            else:
                args[p] = fresh(ct, p)
            continue
        first = False
        if p in spec.arg_types:
            t = spec.arg_types[p]
            args[p] = fresh(t, p) if isinstance(t, Ty) else t
            continue
        ann = anns[p]
        if ann is None:
            raise PyvcUnsupported(f"parameter {p} of {key} has no annotation and no sidecar type")
        t = ex.world.ann_to_ty(ann, modpath)
        if t is None:
            args[p] = None
        else:
            args[p] = fresh(t, p)
    return args, fn, modpath, real_cls


def capture_closure(ex, key, spec):
    """nested def (any depth): run the chain of enclosing functions on symbolic arguments, each until the def statement of
    the next one is reached; returns (FuncV with its real closure environment, path state there, outermost args)"""
    from .exec import _Captured
    from .spec import Spec
    base = key.split("#")[0]
    path, q = base.split("::")
    okey = ex.repo.outer_key(key)
    n_outer = len(okey.split("::")[1].split("."))
    parts = q.split(".")
    chain = [f"{path}::{'.'.join(parts[:k])}" for k in range(n_outer, len(parts) + 1)]   # outermost ... target
    level_types = getattr(spec, "outer_arg_types_by_level", None) or [getattr(spec, "outer_arg_types", {}) or {}]
    fv, st, first_args = None, St(), None
    for lvl, (cur, nxt) in enumerate(zip(chain[:-1], chain[1:])):
        types = level_types[lvl] if lvl < len(level_types) else {}
        sp = Spec(cur, arg_types=dict(types))
        if fv is None:
            args, fn, mod, cls = make_args(ex, cur, sp)
            for c in getattr(spec, "outer_pre", []):
                st = st.assume(c(NS(args)))
            cur_fv = FuncV(fn, mod, cls=cls, key=cur)
            first_args = args
        else:
            args, fn, mod, cls = make_args(ex, cur, sp)
            cur_fv = fv
        ex.capture = (nxt, [])
        ex.cur_key = chain[0]
        try:
            for _ in ex.run_function(cur_fv, args, st):
                pass
        except _Captured:
            pass
        finally:
            cap = ex.capture[1]
            ex.capture = None
            ex.cur_key = None
        if not cap:
            raise PyvcUnsupported(f"nested function {nxt} was not defined on any explored path of {cur}")
        fv, st = cap[0]
    return fv, st, first_args


def verify_function(ex, key, timeout_ms=10000, extra_pre=(), only=None, pin_len=None):
    """execute the real body of `key` under its contract -> FnReport.  `only`: indices (positions in the result list)
    of the obligations to decide; the others are marked `skipped` (used by the per-obligation retry)"""
    rep = FnReport(key)

    def solve_ob(hy, goal, axioms, tmo):
        if only is not None and len(rep.results) not in only:
            return "skipped", "-", 0.0, None, None
        return solve(hy, goal, axioms, tmo)
    t0 = time.time()
    spec = ex.specs.get(key)
    try:
        closure_fv, closure_st, outer_args = None, None, None
        if ex.repo.outer_key(key) is not None:
            closure_fv, closure_st, outer_args = capture_closure(ex, key, spec)
        args, fn, modpath, cls = make_args(ex, key, spec)
        ex.pinned = {}
        if pin_len is not None:
            # bounded stand-in (never counted as proved): every sequence argument has exactly pin_len elements, so loops
            # and folds over it unroll and need no invariant
            extra_pre = list(extra_pre)
            for v_ in args.values():
                if isinstance(v_, Sym) and isinstance(v_.ty, SeqTy):
                    ex.pinned[v_.e.get_id()] = pin_len
                    extra_pre.append(z3.Length(v_.e) == pin_len)
        if outer_args is not None:
            args_ns = dict(args)
            args_ns["outer"] = NS(outer_args)
            args_ns["closure"] = NS({k: v for k, v in (closure_fv.closure or {}).items() if not k.startswith("__")})
        rep.src_hash = ex.repo.source_hash(fn, modpath)
        a = NS(args if outer_args is None else args_ns)
        st = St() if closure_st is None else closure_st
        pre_conds = []
        from contracts import common as _cm
        unfold = set(getattr(spec, "unfold", ()))
        _cm.HIDE = set(getattr(spec, "hide", ()))
        _cm.UNFOLD = unfold
        for c in spec.pre:
            cond = c.fn(a)
            pre_conds.append((c.name, cond))
            st = st.assume(cond)
        _cm.UNFOLD = set()
        links = _cm.take_links()
        for c in extra_pre:
            st = st.assume(c)
        for gname, gfn in getattr(spec, "ghost_defs", ()):
            st = st.assume(gfn(a))
        # vacuity: the precondition must be satisfiable
        if not ex.feasible(st.pc):
            rep.status = "error"
            rep.detail = "vacuous contract: precondition unsatisfiable"
            return rep
        ret_ty = spec.ret_ty(ex) if getattr(spec, "report_type", None) is None else None
        ex.cur_key = key
        saved_opaque = ex.opaque
        ex.opaque = set(ex.opaque) - set(getattr(spec, "transparent", ()))
        ex.obligations = []
        ex.fresh_uuids = []
        ex.iface_used = set()
        n0 = ex.solver_calls
        fv = FuncV(fn, modpath, cls=cls, key=key) if closure_fv is None else closure_fv
        try:
            outs = list(ex.run_function(fv, args, st))
        finally:
            ex.opaque = saved_opaque
        ex.cur_key = None
        axioms = ex.base_axioms()
        _cm.UNFOLD = unfold
        for i, out in enumerate(outs):
            if out.kind == "raise":
                rep.raise_paths += 1
                selfname = next(iter(args), None)
                for c in getattr(spec, "raise_post", []):
                    goal = c.fn(a, out.val.exc.cls, Sym(ExcT, out.val.exc.e), (out.env or {}).get(selfname))
                    if isinstance(goal, bool) and goal:
                        rep.results.append(ObResult(f"{key}.{c.name}.path{i}@{out.val.where}", "ensures", "proved", "trivial", 0.0, c.props))
                        continue
                    status, be, secs, mt, m = solve_ob(list(out.st.hyps) + links, z3_bool(goal), axioms, timeout_ms)
                    rep.results.append(ObResult(f"{key}.{c.name}.path{i}@{out.val.where}", "ensures", status, be, secs, c.props, model=mt,
                                                detail=f"on the path raising {out.val.exc!r} at line {out.val.where}", meta={"path": i}))
                if not spec.may_raise:
                    oid = f"{key}.no_raise.path{i}@{out.val.where}"
                    status, be, secs, mt, m = solve_ob(out.st.hyps, z3.BoolVal(False), axioms, timeout_ms)
                    rep.results.append(ObResult(oid, "no-raise", status, be, secs, spec.raise_props,
                                                detail=f"{out.val.exc!r} raised at line {out.val.where}", model=mt,
                                                meta={"z3model": m, "args": args, "path": i}))
                continue
            rep.paths += 1
            if getattr(spec, "report_type", None) is not None:
                from .exec import Report
                from .builtins import call_builtin
                rv = out.val
                ok_shape = isinstance(rv, Report) and isinstance(rv.fields, PyDict)
                rt = ex.world.class_ty("ReportType")
                want = spec.report_fields(a)
                got = {k: v for k, v in rv.fields.items if isinstance(k, str)} if ok_shape else {}
                conds = [v_eq(rv.rtype, Sym(rt, rt.const(spec.report_type)))] if ok_shape else [False]
                for fname, fval in want.items():
                    if fname not in got:
                        conds.append(False)
                    else:
                        conds.append(v_eq(got[fname], fval))
                    goal = conds[-1]
                    status, be, secs, mt, m = solve_ob(out.st.hyps, z3_bool(goal), axioms, timeout_ms)
                    rep.results.append(ObResult(f"{key}.report_field.{fname}.path{i}", "ensures", status, be, secs,
                                                spec.report_props, model=mt, meta={"path": i}))
                for cname_, cfn, cprops in getattr(spec, "report_clauses", []):
                    goal = cfn(a, got) if ok_shape else False
                    status, be, secs, mt, m = solve_ob(out.st.hyps, z3_bool(goal), axioms, timeout_ms)
                    rep.results.append(ObResult(f"{key}.{cname_}.path{i}", "ensures", status, be, secs, cprops, model=mt, meta={"path": i}))
                continue
            res = normalize(out.val, ret_ty)
            lem = []
            for lname, lfn in spec.lemma_fns:
                _cm.UNFOLD = unfold
                lem.append(z3_bool(lfn(a, res)))
            for c in spec.post:
                _cm.take_links()
                goal = c.fn(a, res, reports=out.st.reports) if "reports" in c.fn.__code__.co_varnames[:c.fn.__code__.co_argcount] else c.fn(a, res)
                if isinstance(goal, bool) and goal:
                    rep.results.append(ObResult(f"{key}.{c.name}.path{i}", "ensures", "proved", "trivial", 0.0, c.props))
                    continue
                hy = list(out.st.hyps) + links + lem + _cm.take_links()
                hy += uuid_freshness(ex.fresh_uuids, hy + [z3_bool(goal)])
                status, be, secs, mt, m = solve_ob(hy, z3_bool(goal), axioms, timeout_ms)
                rep.results.append(ObResult(f"{key}.{c.name}.path{i}", "ensures", status, be, secs, c.props, model=mt,
                                            meta={"z3model": m, "args": args, "result": res, "path": i}))
            selfname = next(iter(args), None)
            for c in getattr(spec, "state_post", []):
                goal = c.fn(a, res, (out.env or {}).get(selfname))
                if isinstance(goal, bool) and goal:
                    rep.results.append(ObResult(f"{key}.{c.name}.path{i}", "ensures", "proved", "trivial", 0.0, c.props))
                    continue
                status, be, secs, mt, m = solve_ob(list(out.st.hyps) + links + lem, z3_bool(goal), axioms, timeout_ms)
                rep.results.append(ObResult(f"{key}.{c.name}.path{i}", "ensures", status, be, secs, c.props, model=mt, meta={"path": i}))
            if len(rep.path_samples) < 3:
                rep.path_samples.append({"path": i, "pc": [str(z3.simplify(p))[:200] for p in out.st.pc[:8]],
                                         "result": repr(res)[:300], "reports": [repr(r) for r in out.st.reports]})
        for ob in ex.obligations:
            status, be, secs, mt, m = solve_ob(list(ob.hyps) + links, ob.goal, axioms, timeout_ms)
            rep.results.append(ObResult(ob.oid, ob.kind, status, be, secs, tuple(ob.meta.get("props", ())), model=mt, meta={"z3model": m, "args": args}))
        if rep.paths == 0 and rep.raise_paths == 0:
            rep.status = "error"
            rep.detail = "zero feasible paths"
        rep.solver_calls = ex.solver_calls - n0
        rep.iface_used = sorted(ex.iface_used)
    except PyvcUnsupported as e:
        rep.status = "out-of-reach"
        rep.detail = str(e)
    except Exception as e:  # checker crash: never a violation
        rep.status = "error"
        rep.detail = "".join(traceback.format_exception_only(type(e), e)) + traceback.format_exc()[-1500:]
    finally:
        ex.cur_key = None
        try:
            from contracts import common as _cm2
            _cm2.UNFOLD = set()
            _cm2.HIDE = set()
        except Exception:  # noqa
            pass
    rep.secs = time.time() - t0
    return rep
