"""Types (Ty) and z3 sorts generated from the real class definitions of /repo."""
from __future__ import annotations
import ast
import z3

# ------------------------------------------------------------------ base sorts
Str = z3.DeclareSort("Str")
ExcS = z3.DeclareSort("Exc")


class Ty:
    name = "?"

    def __repr__(self):
        return self.name

    def __eq__(self, o):
        return isinstance(o, Ty) and self.name == o.name

    def __hash__(self):
        return hash(self.name)


class PrimTy(Ty):
    def __init__(self, name, sort):
        self.name, self._sort = name, sort

    @property
    def sort(self):
        return self._sort


IntT = PrimTy("int", z3.IntSort())
RealT = PrimTy("float", z3.RealSort())
BoolT = PrimTy("bool", z3.BoolSort())
StrT = PrimTy("str", Str)
ExcT = PrimTy("Exc", ExcS)


class AbstractTy(Ty):
    """opaque object of an interface / external type: uninterpreted sort, methods are UFs"""
    _sorts = {}

    def __init__(self, name):
        self.name = "Abs_" + name
        self.base = name

    @property
    def sort(self):
        if self.base not in AbstractTy._sorts:
            AbstractTy._sorts[self.base] = z3.DeclareSort(self.name)
        return AbstractTy._sorts[self.base]


class EnumTy(Ty):
    _cache = {}

    def __init__(self, name, members):
        self.name = name
        self.members = list(members)
        if name not in EnumTy._cache:
            EnumTy._cache[name] = z3.EnumSort(name, [f"{name}_{m}" for m in self.members])

    @property
    def sort(self):
        return EnumTy._cache[self.name][0]

    def const(self, member):
        return EnumTy._cache[self.name][1][self.members.index(member)]


class OptTy(Ty):
    _cache = {}

    def __init__(self, elem):
        self.elem = elem
        self.name = f"Opt_{elem.name}"

    @property
    def sort(self):
        if self.name not in OptTy._cache:
            d = z3.Datatype(self.name)
            d.declare("none_" + self.elem.name)
            d.declare("some_" + self.elem.name, ("val_" + self.elem.name, self.elem.sort))
            OptTy._cache[self.name] = d.create()
        return OptTy._cache[self.name]

    def none(self):
        return self.sort.constructor(0)()

    def some(self, e):
        return self.sort.constructor(1)(e)

    def is_none(self, e):
        return self.sort.recognizer(0)(e)

    def is_some(self, e):
        return self.sort.recognizer(1)(e)

    def val(self, e):
        return self.sort.accessor(1, 0)(e)


class ResultTy(Ty):
    """returns.result ResultE[T]: Success(T) | Failure(Exc)"""
    _cache = {}

    def __init__(self, elem):
        self.elem = elem
        self.name = f"Res_{elem.name}"

    @property
    def sort(self):
        if self.name not in ResultTy._cache:
            d = z3.Datatype(self.name)
            d.declare("Success_" + self.elem.name, ("unwrap_" + self.elem.name, self.elem.sort))
            d.declare("Failure_" + self.elem.name, ("failure_" + self.elem.name, ExcS))
            ResultTy._cache[self.name] = d.create()
        return ResultTy._cache[self.name]

    def success(self, e):
        return self.sort.constructor(0)(e)

    def failure(self, e):
        return self.sort.constructor(1)(e)

    def is_success(self, e):
        return self.sort.recognizer(0)(e)

    def is_failure(self, e):
        return self.sort.recognizer(1)(e)

    def unwrap(self, e):
        return self.sort.accessor(0, 0)(e)

    def fail_val(self, e):
        return self.sort.accessor(1, 0)(e)


class SeqTy(Ty):
    def __init__(self, elem):
        self.elem = elem
        self.name = f"Seq_{elem.name}"

    @property
    def sort(self):
        return z3.SeqSort(self.elem.sort)


class NpArr2Ty(Ty):
    """a 2-D numpy float array created by the activation itself (np.full): Array Int (Array Int Real) with a symbolic
    shape (n, m); stores are functional updates of the local binding"""

    def __init__(self, n, m):
        self.n, self.m = n, m
        self.name = "NpArr2"

    @property
    def sort(self):
        return z3.ArraySort(z3.IntSort(), z3.ArraySort(z3.IntSort(), z3.RealSort()))


class NpRowTy(Ty):
    def __init__(self, m):
        self.m = m
        self.name = "NpRow"

    @property
    def sort(self):
        return z3.ArraySort(z3.IntSort(), z3.RealSort())


class SetTy(Ty):
    def __init__(self, elem):
        self.elem = elem
        self.name = f"Set_{elem.name}"

    @property
    def sort(self):
        return z3.ArraySort(self.elem.sort, z3.BoolSort())

    def empty(self):
        return z3.K(self.elem.sort, z3.BoolVal(False))


class MapTy(Ty):
    """immutables.Map / dict as a finite partial function: Array K (Opt V)"""

    def __init__(self, key, val):
        self.key, self.val = key, val
        self.opt = OptTy(val)
        self.name = f"Map_{key.name}_{val.name}"

    @property
    def sort(self):
        return z3.ArraySort(self.key.sort, self.opt.sort)

    def empty(self):
        return z3.K(self.key.sort, self.opt.none())


class TupleTy(Ty):
    """fixed-arity heterogeneous tuple"""
    _cache = {}

    def __init__(self, elems):
        self.elems = list(elems)
        self.name = "Tup_" + "_".join(e.name for e in self.elems)

    @property
    def sort(self):
        if self.name not in TupleTy._cache:
            d = z3.Datatype(self.name)
            d.declare("mk_" + self.name, *[(f"{self.name}_{i}", e.sort) for i, e in enumerate(self.elems)])
            TupleTy._cache[self.name] = d.create()
        return TupleTy._cache[self.name]

    def mk(self, *es):
        return self.sort.constructor(0)(*es)

    def get(self, e, i):
        return self.sort.accessor(0, i)(e)


class ClassTy(Ty):
    """NamedTuple / frozen dataclass of the repo.  For members of a union the sort is the union's."""

    def __init__(self, world, cname):
        self.world, self.cname = world, cname
        self.name = cname

    @property
    def root(self):
        return self.world.union_root(self.cname)

    @property
    def sort(self):
        return self.world.class_sort(self.cname)

    def fields(self):
        return self.world.class_fields(self.cname)  # [(name, Ty)]

    def field_ty(self, f):
        for n, t in self.fields():
            if n == f:
                return t
        raise KeyError((self.cname, f))

    def has_field(self, f):
        return any(n == f for n, _ in self.fields())


class UnionTy(Ty):
    """root of a family of data classes (VehicleState, DriverState, Instruction ...)"""

    def __init__(self, world, root):
        self.world, self.root = world, root
        self.name = root

    @property
    def sort(self):
        return self.world.union_sort(self.root)

    def members(self):
        return self.world.union_members(self.root)


class FuncTy(Ty):
    """a Callable stored in data (e.g. schedule functions): abstract object with a call UF"""

    def __init__(self, name, args, ret):
        self.name = "Fn_" + name
        self.args, self.ret = args, ret
        self._abs = AbstractTy(self.name)

    @property
    def sort(self):
        return self._abs.sort


# ------------------------------------------------------------------ world: sorts from repo classes
UNION_ROOTS = ("VehicleState", "DriverState", "Instruction", "InstructionGenerator",
               "SimulationUpdateFunction", "MechatronicsInterface", "RoadNetwork", "Powertrain", "Powercurve")
# roots whose members are *not* enumerated (open interface: any implementation) -> abstract objects
ABSTRACT_ROOTS = ("InstructionGenerator", "SimulationUpdateFunction", "MechatronicsInterface", "RoadNetwork",
                  "Powertrain", "Powercurve", "Reporter", "ForecasterInterface", "Handler")
CLOSED_UNIONS = ("VehicleState", "DriverState", "Instruction")

PRIM_NAMES = {
    "int": IntT, "float": RealT, "bool": BoolT, "str": StrT, "Exception": ExcT, "SimTime": IntT,
    "UUID": AbstractTy("UUID"), "VehicleStateInstanceId": AbstractTy("UUID"), "Any": AbstractTy("Any"),
    "time": IntT,  # datetime.time as seconds of day (assumed, see DESIGN §2.4)
}


class World:
    def __init__(self, repo):
        self.repo = repo
        self._class_sorts = {}
        self._class_fields = {}
        self._union_sorts = {}
        self._union_ctor_index = {}
        self._alias_busy = set()
        self.field_overrides = {}   # (class, field) -> Ty   (sidecar-declared refinements)

    # ---- unions
    def union_root(self, cname):
        for r in CLOSED_UNIONS:
            if cname != r and cname in self.repo.classes and self.repo.is_subclass(cname, r):
                return r
        return None

    def union_members(self, root):
        return [c for c in self.repo.concrete_subclasses(root)]

    def union_sort(self, root):
        if root not in self._union_sorts:
            d = z3.Datatype(root)
            members = self.union_members(root)
            for m in members:
                flds = self.class_fields(m)
                d.declare("mk_" + m, *[(f"{m}_{f}", t.sort) for f, t in flds])
            self._union_sorts[root] = d.create()
            self._union_ctor_index[root] = {m: i for i, m in enumerate(members)}
        return self._union_sorts[root]

    def ctor_index(self, root, member):
        self.union_sort(root)
        return self._union_ctor_index[root][member]

    # ---- classes
    def class_fields(self, cname):
        if cname not in self._class_fields:
            ci = self.repo.classes[cname]
            out = []
            for fn, ann, dflt, owner in self.repo.fields(cname):
                if (cname, fn) in self.field_overrides:
                    out.append((fn, self.field_overrides[(cname, fn)]))
                    continue
                out.append((fn, self.ann_to_ty(ann, self.repo.classes[owner].path)))
            self._class_fields[cname] = out
        return self._class_fields[cname]

    def class_defaults(self, cname):
        return {fn: (dflt, self.repo.classes[owner].path) for fn, ann, dflt, owner in self.repo.fields(cname)
                if dflt is not None}

    def class_sort(self, cname):
        root = self.union_root(cname)
        if root:
            return self.union_sort(root)
        if cname not in self._class_sorts:
            flds = self.class_fields(cname)
            d = z3.Datatype(cname)
            d.declare("mk_" + cname, *[(f"{cname}_{f}", t.sort) for f, t in flds])
            self._class_sorts[cname] = d.create()
        return self._class_sorts[cname]

    def ctor(self, cname):
        root = self.union_root(cname)
        s = self.class_sort(cname)
        return s.constructor(self.ctor_index(root, cname) if root else 0)

    def recognizer(self, cname):
        root = self.union_root(cname)
        s = self.class_sort(cname)
        return s.recognizer(self.ctor_index(root, cname) if root else 0)

    def accessor(self, cname, field):
        root = self.union_root(cname)
        s = self.class_sort(cname)
        ci = self.ctor_index(root, cname) if root else 0
        names = [f for f, _ in self.class_fields(cname)]
        return s.accessor(ci, names.index(field))

    # ---- annotations
    def class_ty(self, cname):
        if cname in CLOSED_UNIONS:
            return UnionTy(self, cname)
        ci = self.repo.classes.get(cname)
        if ci is None:
            return AbstractTy(cname)
        if ci.is_enum:
            members = [t.id for st in ci.node.body if isinstance(st, ast.Assign) for t in st.targets if isinstance(t, ast.Name)]
            return EnumTy(cname, members)
        for r in ABSTRACT_ROOTS:
            if cname == r:
                return AbstractTy(r)
        if ci.is_dataclass or ci.is_namedtuple:
            return ClassTy(self, cname)
        if ci.bases and ci.bases[0] == "int":
            return IntT
        if "Exception" in self.repo.mro(cname) or any(b.endswith("Exception") or b.endswith("Error") for b in ci.bases):
            return ExcT
        return AbstractTy(cname)

    def ann_to_ty(self, ann, modpath):
        """annotation AST (or string) -> Ty"""
        if isinstance(ann, ast.Constant) and isinstance(ann.value, str):
            ann = ast.parse(ann.value, mode="eval").body
        if isinstance(ann, str):
            ann = ast.parse(ann, mode="eval").body
        if isinstance(ann, ast.Constant) and ann.value is None:
            return None
        if isinstance(ann, ast.Name):
            return self.name_to_ty(ann.id, modpath)
        if isinstance(ann, ast.Attribute):
            # immutables.Map, h3.xxx, np.ndarray, datetime.time ...
            if ann.attr == "Map":
                return MapTy(AbstractTy("Any"), AbstractTy("Any"))
            return self.name_to_ty(ann.attr, modpath)
        if isinstance(ann, ast.Subscript):
            head = ann.value
            hname = head.attr if isinstance(head, ast.Attribute) else head.id if isinstance(head, ast.Name) else None
            args = ann.slice.elts if isinstance(ann.slice, ast.Tuple) else [ann.slice]
            if hname == "Optional":
                t = self.ann_to_ty(args[0], modpath)
                return t if isinstance(t, OptTy) else OptTy(t)
            if hname in ("Tuple", "tuple"):
                if len(args) == 2 and isinstance(args[1], ast.Constant) and args[1].value is Ellipsis:
                    return SeqTy(self.ann_to_ty(args[0], modpath))
                return TupleTy([self.ann_to_ty(a, modpath) for a in args])
            if hname in ("List", "Iterable", "Sequence", "Iterator", "list"):
                return SeqTy(self.ann_to_ty(args[0], modpath))
            if hname in ("FrozenSet", "Set", "frozenset", "set"):
                return SetTy(self.ann_to_ty(args[0], modpath))
            if hname in ("Map", "Dict", "dict", "Mapping"):
                return MapTy(self.ann_to_ty(args[0], modpath), self.ann_to_ty(args[1], modpath))
            if hname == "ErrorOr":
                t = self.ann_to_ty(args[0], modpath)
                return TupleTy([OptTy(ExcT), t if isinstance(t, OptTy) else OptTy(t)])
            if hname in ("ResultE", "Result"):
                return ResultTy(self.ann_to_ty(args[0], modpath))
            if hname == "Union":
                return AbstractTy("Union_" + "_".join(ast.unparse(a) for a in args).replace(".", "_"))
            if hname == "Callable":
                return AbstractTy("Callable")
            if hname == "Type":
                return AbstractTy("Type")
            return AbstractTy(hname or "Unknown")
        if isinstance(ann, ast.BinOp) and isinstance(ann.op, ast.BitOr):
            l = self.ann_to_ty(ann.left, modpath)
            r = self.ann_to_ty(ann.right, modpath)
            if r is None:
                return OptTy(l)
            if l is None:
                return OptTy(r)
        return AbstractTy("Unknown")

    def name_to_ty(self, name, modpath):
        if name in PRIM_NAMES:
            return PRIM_NAMES[name]
        if name == "ScheduleFunction":
            # Callable[[SimulationState, VehicleId], bool]: an abstract callable returning bool
            return FuncTy("ScheduleFunction", [], BoolT)
        if name in ("FrozenSet", "frozenset"):
            return SetTy(AbstractTy("Any"))
        if name in self.repo.classes:
            return self.class_ty(name)
        r = self.repo.resolve(modpath, name) if modpath else None
        if r is not None:
            if r[0] == "class":
                return self.class_ty(r[1].name)
            if r[0] == "assign":
                key = (r[2], name)
                if key in self._alias_busy:
                    return AbstractTy(name)
                self._alias_busy.add(key)
                try:
                    e = r[1]
                    # alias like  KwH = float / Route = Tuple[LinkTraversal, ...] / VehicleStateInstanceId = UUID
                    if isinstance(e, (ast.Name, ast.Subscript, ast.Attribute)):
                        return self.ann_to_ty(e, r[2])
                finally:
                    self._alias_busy.discard(key)
        return AbstractTy(name)
