"""./check entry point: decide one property by discharging every obligation tagged with it."""
from __future__ import annotations
import sys, os, json, time, argparse, hashlib, traceback, re
import multiprocessing as mp

ROOT = os.path.dirname(os.path.dirname(os.path.abspath(__file__)))
sys.path.insert(0, ROOT)


def load():
    from pyvc.repo import Repo
    from pyvc.tys import World
    from pyvc.exec import Exec
    from contracts import registry
    repo = Repo()
    world = World(repo)
    ex = Exec(world, None)
    R = registry.build(world, ex)
    return repo, world, ex, R


_W = {}


def _worker_init():
    _W["ctx"] = load()


def _verify_one(job):
    key, timeout_ms, opaque = job[:3]
    only = job[3] if len(job) > 3 else None
    pin_len = job[4] if len(job) > 4 else None
    if "ctx" not in _W:
        _worker_init()
    from pyvc.verify import verify_function
    from pyvc import verify as _vf
    _vf.PHASE[0] = "retry" if only is not None else "first"
    from pyvc.exec import Exec
    from contracts import common
    repo, world, ex0, R = _W["ctx"]
    ex = ex0
    ex._feas_cache.clear()
    ex._ent_cache.clear()
    ex.opaque = set(opaque)
    try:
        rep = verify_function(ex, key, timeout_ms, only=only, pin_len=pin_len)
        for r in rep.results:
            r.meta.pop("z3model", None)
            r.meta.pop("args", None)
            r.meta.pop("result", None)
        return rep.to_json()
    except Exception as e:  # noqa
        return {"key": key, "status": "error", "detail": traceback.format_exc()[-2000:], "obligations": [], "paths": 0,
                "raise_paths": 0, "secs": 0, "src_hash": "", "feasibility_queries": 0, "assumed_interfaces": []}


def functions_for(R, pid):
    keys = []
    for key, spec in R.specs.items():
        if spec.trusted:
            continue
        tags = set(spec.raise_props) | set(spec.frame_props) | set(getattr(spec, 'report_props', ()))
        for _n, _f, _p in getattr(spec, 'report_clauses', []):
            tags |= set(_p)
        for c in list(spec.post) + list(getattr(spec, "state_post", [])) + list(getattr(spec, "raise_post", [])):
            tags |= set(c.props)
        if pid in tags:
            keys.append(key)
    return keys


def main(argv=None):
    ap = argparse.ArgumentParser()
    ap.add_argument("prop")
    ap.add_argument("--tier", default=os.environ.get("VERIF_TIER", "quick"))
    ap.add_argument("--replay", default=None)
    ap.add_argument("-j", type=int, default=min(16, os.cpu_count() or 4))
    ap.add_argument("-v", action="store_true")
    ap.add_argument("--record-baseline", action="store_true")
    args = ap.parse_args(argv)
    from pyvc import report
    if args.prop == "replay":
        from pyvc import replay
        return replay.main(args.replay or (argv or sys.argv[1:])[1])
    return report.run_property(args.prop.upper(), args.tier, args.j, args.v, args.record_baseline)


if __name__ == "__main__":
    sys.exit(main())
