"""Symbolic values and the Python-semantics operations on them (shared by executor and contracts)."""
from __future__ import annotations
import itertools
from fractions import Fraction
import z3
from .tys import *

_fresh = itertools.count()


def fresh_name(prefix="v"):
    return f"{prefix}!{next(_fresh)}"


class PyvcUnsupported(Exception):
    """construct outside the supported subset: the function is *out of reach*, never a violation"""


class Sym:
    """a symbolic value: z3 term + Ty"""
    __slots__ = ("ty", "e")

    def __init__(self, ty, e):
        self.ty, self.e = ty, e

    def __repr__(self):
        s = str(self.e)
        return f"<{self.ty.name}:{s[:60]}>"

    def __bool__(self):
        raise PyvcUnsupported("python truthiness of a symbolic value (use And/Or/Not/truth)")

    __hash__ = None

    # comparisons / arithmetic build formulas (contract DSL)
    def __eq__(self, o): return v_eq(self, o)
    def __ne__(self, o): return v_not(v_eq(self, o))
    def __lt__(self, o): return v_cmp("<", self, o)
    def __le__(self, o): return v_cmp("<=", self, o)
    def __gt__(self, o): return v_cmp(">", self, o)
    def __ge__(self, o): return v_cmp(">=", self, o)
    def __add__(self, o): return v_arith("+", self, o)
    def __radd__(self, o): return v_arith("+", o, self)
    def __sub__(self, o): return v_arith("-", self, o)
    def __rsub__(self, o): return v_arith("-", o, self)
    def __mul__(self, o): return v_arith("*", self, o)
    def __rmul__(self, o): return v_arith("*", o, self)
    def __truediv__(self, o): return v_arith("/", self, o)
    def __rtruediv__(self, o): return v_arith("/", o, self)
    def __mod__(self, o): return v_arith("%", self, o)
    def __floordiv__(self, o): return v_arith("//", self, o)
    def __neg__(self): return v_arith("-", 0, self)
    def __and__(self, o): return v_and(self, o)
    def __rand__(self, o): return v_and(o, self)
    def __or__(self, o): return v_or(self, o)
    def __ror__(self, o): return v_or(o, self)
    def __invert__(self): return v_not(self)

    def __getattr__(self, name):
        if name.startswith("__"):
            raise AttributeError(name)
        return v_getfield(self, name)

    def __getitem__(self, k):
        return v_index(self, k)

    # helpers used in contracts
    def _replace(self, **kw): return v_replace(self, kw)
    def get(self, k): return v_map_get(self, k)
    def has(self, k): return v_contains(self, k)
    def set(self, k, v): return v_map_set(self, k, v)
    def delete(self, k): return v_map_delete(self, k)
    def is_none(self): return v_is_none(self)
    def is_some(self): return v_not(v_is_none(self))
    def val(self): return v_unwrap(self)
    def is_a(self, cname): return v_isinstance(self, cname)
    def as_a(self, cname): return v_narrow(self, cname)
    def len(self): return v_len(self)


class EmptyColl:
    """empty literal whose element type is not yet known: (), [], frozenset(), Map(), {}"""

    def __init__(self, kind):
        self.kind = kind  # 'set' | 'map' | 'seq'

    def __repr__(self):
        return f"<empty {self.kind}>"


class PyDict:
    """dict literal / builder at meta level: ordered list of (key, value)"""

    def __init__(self, items=()):
        self.items = list(items)


class PySet:
    """set literal with known elements at meta level"""

    def __init__(self, items=()):
        self.items = list(items)


class Raised:
    """an exception propagating out of an expression"""

    def __init__(self, exc, where=None):
        self.exc, self.where = exc, where

    def __repr__(self):
        return f"Raised({self.exc}@{self.where})"


class ExcVal:
    """exception value with its python class name kept at meta level"""

    def __init__(self, cls, e=None):
        self.cls = cls
        self.e = e if e is not None else z3.Const(fresh_name("exc_" + cls), ExcS)

    def __repr__(self):
        return f"<exc {self.cls}>"


class NpMask:
    """`arr == value` on a numpy array: a boolean mask, usable only as the index of a masked store"""

    def __init__(self, arr, value):
        self.arr, self.value = arr, value


POS_INF = z3.Real("float_pos_inf")      # float("inf") / float("-inf"): two constants that are only ever compared
NEG_INF = z3.Real("float_neg_inf")


class Opaque:
    """a value whose content is dropped (f-string text, repr(...), log message)"""

    def __init__(self, what="text"):
        self.what = what

    def __repr__(self):
        return f"<opaque {self.what}>"


# ------------------------------------------------------------------ string literals
_STRLITS = {}


def strlit(s):
    if s not in _STRLITS:
        safe = "".join(ch if ch.isalnum() else "_" for ch in s)[:24]
        _STRLITS[s] = z3.Const(f"strlit_{len(_STRLITS)}_{safe}", Str)
    return _STRLITS[s]


def strlit_axioms():
    vs = list(_STRLITS.values())
    return [z3.Distinct(*vs)] if len(vs) > 1 else []


# strict total order on strings (uninterpreted; only totality/irreflexivity/transitivity are used)
str_lt = z3.Function("str_lt", Str, Str, z3.BoolSort())


def str_order_quantified():
    """strict total order on the id sort (the only properties of python's string order that are used)"""
    a, b, c = z3.Consts("so_a so_b so_c", Str)
    return [z3.ForAll([a], z3.Not(str_lt(a, a))),
            z3.ForAll([a, b], z3.Or(str_lt(a, b), str_lt(b, a), a == b)),
            z3.ForAll([a, b], z3.Not(z3.And(str_lt(a, b), str_lt(b, a)))),
            z3.ForAll([a, b, c], z3.Implies(z3.And(str_lt(a, b), str_lt(b, c)), str_lt(a, c)))]


def mentions_decl(formulas, name):
    seen, stack = set(), list(formulas)
    while stack:
        x = stack.pop()
        i = x.get_id()
        if i in seen:
            continue
        seen.add(i)
        if z3.is_quantifier(x):
            stack.append(x.body())
            continue
        if z3.is_app(x):
            if x.decl().name() == name:
                return True
            stack.extend(x.children())
    return False


def str_order_axioms(terms):
    """instantiate order axioms on the given ground Str terms (pointwise)"""
    out = []
    ts = list(terms)
    for a in ts:
        out.append(z3.Not(str_lt(a, a)))
    for a, b in itertools.combinations(ts, 2):
        out.append(z3.Or(str_lt(a, b), str_lt(b, a), a == b))
        out.append(z3.Not(z3.And(str_lt(a, b), str_lt(b, a))))
    if len(ts) <= 6:
        for a, b, c in itertools.permutations(ts, 3):
            out.append(z3.Implies(z3.And(str_lt(a, b), str_lt(b, c)), str_lt(a, c)))
    return out


# ------------------------------------------------------------------ coercion
def is_sym(v):
    return isinstance(v, Sym)


def ty_of(v):
    if isinstance(v, Sym):
        return v.ty
    if isinstance(v, bool):
        return BoolT
    if isinstance(v, int):
        return IntT
    if isinstance(v, (float, Fraction)):
        return RealT
    if isinstance(v, str):
        return StrT
    if isinstance(v, ExcVal):
        return ExcT
    if isinstance(v, (tuple, list)):
        if len(v) == 0:
            return None
        ts = [ty_of(x) for x in v]
        if all(t is not None and t == ts[0] for t in ts):
            return SeqTy(ts[0])
        return TupleTy(ts) if all(t is not None for t in ts) else None
    return None


def exact(x):
    """python number -> exact rational (float literals are read as the decimal they were written as)"""
    if isinstance(x, Fraction):
        return x
    if isinstance(x, bool):
        return Fraction(int(x))
    if isinstance(x, int):
        return Fraction(x)
    return Fraction(repr(x))


def realval(x):
    if isinstance(x, Fraction):
        return z3.RealVal(str(x))
    if isinstance(x, int):
        return z3.RealVal(x)
    return z3.RealVal(repr(x)) if isinstance(x, float) else z3.RealVal(x)


def coerce(v, ty):
    """python/meta value or Sym -> z3 term of ty.sort"""
    if ty is None:
        raise PyvcUnsupported(f"coerce {v!r} to NoneType")
    if isinstance(v, Sym):
        if v.ty == ty or v.e.sort() == ty.sort:
            return v.e
        if isinstance(ty, OptTy):
            if isinstance(v.ty, OptTy):
                # Opt[T] -> Opt[U] with compatible payloads
                inner = coerce(Sym(v.ty.elem, v.ty.val(v.e)), ty.elem)
                return z3.If(v.ty.is_none(v.e), ty.none(), ty.some(inner))
            return ty.some(coerce(v, ty.elem))
        if ty is RealT and v.ty is IntT:
            return z3.ToReal(v.e)
        if ty is IntT and v.ty is RealT:
            raise PyvcUnsupported("implicit float->int")
        if isinstance(v.ty, OptTy) and v.ty.elem.sort == ty.sort:
            return v.ty.val(v.e)      # caller is responsible for the None check
        if ty is BoolT:
            return z3_truth(v)
        raise PyvcUnsupported(f"coerce {v.ty.name} to {ty.name}")
    if v is None:
        if isinstance(ty, OptTy):
            return ty.none()
        raise PyvcUnsupported(f"None where {ty.name} expected")
    if isinstance(ty, OptTy):
        return ty.some(coerce(v, ty.elem))
    if isinstance(v, bool):
        if ty is BoolT:
            return z3.BoolVal(v)
        if ty is IntT:
            return z3.IntVal(int(v))
        if ty is RealT:
            return z3.RealVal(int(v))
    if isinstance(v, int) and not isinstance(v, bool):
        if ty is IntT:
            return z3.IntVal(v)
        if ty is RealT:
            return z3.RealVal(v)
        if ty is BoolT:
            return z3.BoolVal(v != 0)
    if isinstance(v, Fraction):
        if ty is RealT:
            return realval(v)
        if ty is IntT and v.denominator == 1:
            return z3.IntVal(int(v))
        if ty is BoolT:
            return z3.BoolVal(v != 0)
    if isinstance(v, float):
        if ty is RealT:
            return realval(v)
        if ty is IntT and v == int(v):
            # float literal in an int slot (e.g. 0.0 vs Seconds): keep the value
            return z3.IntVal(int(v))
    if isinstance(v, str) and ty is StrT:
        return strlit(v)
    if isinstance(v, ExcVal) and ty is ExcT:
        return v.e
    if isinstance(v, EmptyColl):
        if isinstance(ty, SetTy):
            return ty.empty()
        if isinstance(ty, MapTy):
            return ty.empty()
        if isinstance(ty, SeqTy):
            return z3.Empty(ty.sort)
    if isinstance(v, (tuple, list)):
        if isinstance(ty, SeqTy):
            if len(v) == 0:
                return z3.Empty(ty.sort)
            units = [z3.Unit(coerce(x, ty.elem)) for x in v]
            return units[0] if len(units) == 1 else z3.Concat(*units)
        if isinstance(ty, TupleTy) and len(v) == len(ty.elems):
            return ty.mk(*[coerce(x, t) for x, t in zip(v, ty.elems)])
        if isinstance(ty, SetTy):
            e = ty.empty()
            for x in v:
                e = z3.Store(e, coerce(x, ty.elem), z3.BoolVal(True))
            return e
    if isinstance(v, PySet) and isinstance(ty, SetTy):
        e = ty.empty()
        for x in v.items:
            e = z3.Store(e, coerce(x, ty.elem), z3.BoolVal(True))
        return e
    if isinstance(v, PyDict) and isinstance(ty, MapTy):
        e = ty.empty()
        for k, x in v.items:
            e = z3.Store(e, coerce(k, ty.key), ty.opt.some(coerce(x, ty.val)))
        return e
    raise PyvcUnsupported(f"coerce {v!r} to {ty.name}")


def lift(v):
    """python constant -> Sym"""
    if isinstance(v, Sym):
        return v
    t = ty_of(v)
    if t is None:
        raise PyvcUnsupported(f"cannot lift {v!r}")
    return Sym(t, coerce(v, t))


def fresh(ty, prefix="x"):
    return Sym(ty, z3.Const(fresh_name(prefix), ty.sort))


# ------------------------------------------------------------------ boolean helpers
def z3_bool(v):
    if isinstance(v, bool):
        return z3.BoolVal(v)
    if isinstance(v, Sym) and v.ty is BoolT:
        return v.e
    if z3.is_expr(v) and z3.is_bool(v):
        return v
    return z3_truth(v)


_QCACHE = {}


def has_quant(e):
    """does the z3 term contain a quantifier (or lambda)?"""
    k = e.get_id()
    if k in _QCACHE:
        return _QCACHE[k][1]
    seen, stack, res = set(), [e], False
    while stack:
        x = stack.pop()
        i = x.get_id()
        if i in seen:
            continue
        seen.add(i)
        if z3.is_quantifier(x):
            res = True
            break
        stack.extend(x.children())
    _QCACHE[k] = (e, res)      # keep the term alive: z3 reuses ids of collected ASTs
    return res


def mkbool(e):
    if isinstance(e, bool):
        return e
    if not has_quant(e):
        e = z3.simplify(e)
    if z3.is_true(e):
        return True
    if z3.is_false(e):
        return False
    return Sym(BoolT, e)


def v_not(a):
    if isinstance(a, bool):
        return not a
    return mkbool(z3.Not(z3_bool(a)))


def v_and(*xs):
    if all(isinstance(x, bool) for x in xs):
        return all(xs)
    return mkbool(z3.And(*[z3_bool(x) for x in xs]))


def v_or(*xs):
    if all(isinstance(x, bool) for x in xs):
        return any(xs)
    return mkbool(z3.Or(*[z3_bool(x) for x in xs]))


def v_implies(a, b):
    return mkbool(z3.Implies(z3_bool(a), z3_bool(b)))


def v_ite(c, a, b):
    if isinstance(c, bool):
        return a if c else b
    ta = ty_of(a) or ty_of(b)
    tb = ty_of(b) or ta
    if ta is None:
        raise PyvcUnsupported("ite without type")
    t = unify(ta, tb, a, b)
    return Sym(t, z3.If(z3_bool(c), coerce(a, t), coerce(b, t)))


def unify(ta, tb, a=None, b=None):
    if a is None and not isinstance(ta, OptTy) and ta is not None:
        return OptTy(ta)
    if ta is None:
        return tb if isinstance(tb, OptTy) else OptTy(tb)
    if tb is None:
        return ta if isinstance(ta, OptTy) else OptTy(ta)
    if ta == tb:
        return ta
    if {ta, tb} == {IntT, RealT}:
        return RealT
    if isinstance(ta, OptTy) and ta.elem.sort == tb.sort:
        return ta
    if isinstance(tb, OptTy) and tb.elem.sort == ta.sort:
        return tb
    if ta.sort == tb.sort:
        # union member vs union root / two different members of one union
        if isinstance(ta, UnionTy):
            return ta
        if isinstance(tb, UnionTy):
            return tb
        if isinstance(ta, ClassTy) and isinstance(tb, ClassTy) and ta.cname != tb.cname and ta.root:
            return UnionTy(ta.world, ta.root)
        return ta
    raise PyvcUnsupported(f"cannot unify {ta} / {tb}")


def z3_truth(v):
    """python truthiness as a z3 Bool (or python bool)"""
    if v is None:
        return z3.BoolVal(False)
    if isinstance(v, (bool, int, float, str, Fraction)):
        return z3.BoolVal(bool(v))
    if isinstance(v, (tuple, list)):
        return z3.BoolVal(len(v) > 0)
    if isinstance(v, (ExcVal, Opaque)) or type(v).__name__ in ("PyRecord", "SuccessV", "FailureV", "FuncV", "ClassV", "BoundM", "ClassOfV", "NameOfV"):
        return z3.BoolVal(True)
    if isinstance(v, EmptyColl):
        return z3.BoolVal(False)
    if isinstance(v, PyDict):
        return z3.BoolVal(len(v.items) > 0)
    if isinstance(v, Sym):
        t = v.ty
        if t is BoolT:
            return v.e
        if t is IntT:
            return v.e != 0
        if t is RealT:
            return v.e != 0
        if t is StrT:
            return v.e != strlit("")
        if isinstance(t, OptTy):
            inner = z3_truth(Sym(t.elem, t.val(v.e)))
            return z3.And(t.is_some(v.e), inner)
        if isinstance(t, SeqTy):
            return z3.Length(v.e) > 0
        if isinstance(t, MapTy):
            return v.e != t.empty()
        if isinstance(t, SetTy):
            return v.e != t.empty()
        if isinstance(t, ClassTy):
            if not t.fields():
                ci = t.world.repo.classes[t.cname]
                if ci.is_namedtuple:
                    return z3.BoolVal(False)
            return z3.BoolVal(True)
        return z3.BoolVal(True)
    return z3.BoolVal(True)


def truth(v):
    return mkbool(z3_truth(v))


# ------------------------------------------------------------------ equality / comparison / arithmetic
def v_is_none(v):
    if v is None:
        return True
    if isinstance(v, Sym) and isinstance(v.ty, OptTy):
        return mkbool(v.ty.is_none(v.e))
    return False


def v_unwrap(v):
    if isinstance(v, Sym) and isinstance(v.ty, OptTy):
        return Sym(v.ty.elem, v.ty.val(v.e))
    return v


def some(v, ty=None):
    v = lift(v)
    if isinstance(v.ty, OptTy):
        return v
    t = OptTy(ty or v.ty)
    return Sym(t, t.some(v.e))


def v_eq(a, b):
    if not isinstance(a, Sym) and not isinstance(b, Sym):
        if isinstance(a, (tuple, list)) and isinstance(b, (tuple, list)):
            if len(a) != len(b):
                return False
            return v_and(*[v_eq(x, y) for x, y in zip(a, b)]) if a else True
        if isinstance(a, EmptyColl) or isinstance(b, EmptyColl):
            o = b if isinstance(a, EmptyColl) else a
            if isinstance(o, EmptyColl):
                return True
            if isinstance(o, (tuple, list)):
                return len(o) == 0
            return False
        if isinstance(a, ExcVal) or isinstance(b, ExcVal):
            if isinstance(a, ExcVal) and isinstance(b, ExcVal):
                return mkbool(a.e == b.e)
            return False
        if isinstance(a, (PyDict, Opaque)) or isinstance(b, (PyDict, Opaque)):
            raise PyvcUnsupported("== on dict literal / opaque text")
        return a == b
    if isinstance(b, Sym) and not isinstance(a, Sym):
        a, b = b, a
    # a is Sym
    if b is None:
        return v_is_none(a)
    if isinstance(b, Sym):
        if a.e.sort() == b.e.sort():
            return mkbool(a.e == b.e)
        if isinstance(a.ty, OptTy) and not isinstance(b.ty, OptTy):
            return mkbool(a.e == coerce(b, a.ty))
        if isinstance(b.ty, OptTy) and not isinstance(a.ty, OptTy):
            return mkbool(b.e == coerce(a, b.ty))
        if {a.ty, b.ty} == {IntT, RealT}:
            return mkbool(coerce(a, RealT) == coerce(b, RealT))
        return False   # values of different python types are unequal
    try:
        return mkbool(a.e == coerce(b, a.ty))
    except PyvcUnsupported:
        if isinstance(b, (int, float, Fraction)) and a.ty in (IntT, RealT):
            return mkbool(coerce(a, RealT) == realval(b))
        return False


def num_pair(a, b):
    ta, tb = ty_of(a), ty_of(b)
    if ta is BoolT:
        ta = IntT
        a = v_ite(a, 1, 0) if isinstance(a, Sym) else int(a)
    if tb is BoolT:
        tb = IntT
        b = v_ite(b, 1, 0) if isinstance(b, Sym) else int(b)
    if ta is IntT and tb is IntT:
        return IntT, coerce(a, IntT), coerce(b, IntT)
    if ta in (IntT, RealT) and tb in (IntT, RealT):
        return RealT, coerce(a, RealT), coerce(b, RealT)
    raise PyvcUnsupported(f"numeric op on {ta} / {tb}")


def v_cmp(op, a, b):
    if not isinstance(a, Sym) and not isinstance(b, Sym) and not isinstance(a, (tuple, list)):
        return {"<": a < b, "<=": a <= b, ">": a > b, ">=": a >= b}[op]
    ta, tb = ty_of(a), ty_of(b)
    if ta is StrT and tb is StrT:
        x, y = coerce(a, StrT), coerce(b, StrT)
        if op == "<":
            return mkbool(str_lt(x, y))
        if op == "<=":
            return mkbool(z3.Or(str_lt(x, y), x == y))
        if op == ">":
            return mkbool(str_lt(y, x))
        return mkbool(z3.Or(str_lt(y, x), x == y))
    if isinstance(a, (tuple, list)) and isinstance(b, (tuple, list)) and len(a) == len(b) and len(a) > 0:
        # lexicographic
        strict = {"<": "<", "<=": "<", ">": ">", ">=": ">"}[op]
        if len(a) == 1:
            return v_cmp(op, a[0], b[0])
        return v_or(v_cmp(strict, a[0], b[0]), v_and(v_eq(a[0], b[0]), v_cmp(op, a[1:], b[1:])))
    _, x, y = num_pair(a, b)
    return mkbool({"<": x < y, "<=": x <= y, ">": x > y, ">=": x >= y}[op])


def v_arith(op, a, b):
    if not isinstance(a, Sym) and not isinstance(b, Sym):
        if isinstance(a, (tuple, list)) and isinstance(b, (tuple, list)) and op == "+":
            return tuple(a) + tuple(b)
        if isinstance(a, EmptyColl) and op == "+":
            return b
        if isinstance(b, EmptyColl) and op == "+":
            return a
        if isinstance(a, (int, float, Fraction)) and isinstance(b, (int, float, Fraction)):
            if isinstance(a, bool):
                a = int(a)
            if isinstance(b, bool):
                b = int(b)
            if isinstance(a, int) and isinstance(b, int) and op != "/":
                pass
            else:
                # machine arithmetic treated as mathematical: constants are folded exactly
                a, b = exact(a), exact(b)
            if op == "+": return a + b
            if op == "-": return a - b
            if op == "*": return a * b
            if op == "/": return a / b
            if op == "//": return a // b
            if op == "%": return a % b
            if op == "**": return a ** b
        raise PyvcUnsupported(f"arith {op} on {a!r},{b!r}")
    ta, tb = ty_of(a), ty_of(b)
    # sequence concatenation
    if op == "+" and (isinstance(ta, SeqTy) or isinstance(tb, SeqTy) or isinstance(a, (tuple, list, EmptyColl)) or isinstance(b, (tuple, list, EmptyColl))):
        t = ta if isinstance(ta, SeqTy) and isinstance(a, Sym) else tb if isinstance(tb, SeqTy) and isinstance(b, Sym) else (ta or tb)
        if not isinstance(t, SeqTy):
            raise PyvcUnsupported("seq concat typing")
        return Sym(t, z3.Concat(coerce(a, t), coerce(b, t)))
    t, x, y = num_pair(a, b)
    if op == "+": return Sym(t, x + y)
    if op == "-": return Sym(t, x - y)
    if op == "*": return Sym(t, x * y)
    if op == "/":
        return Sym(RealT, coerce(a if isinstance(a, Sym) else lift(a), RealT) / coerce(b if isinstance(b, Sym) else lift(b), RealT))
    if op == "//" and t is IntT:
        return Sym(IntT, py_floordiv(x, y))
    if op == "%" and t is IntT:
        return Sym(IntT, py_mod(x, y))
    if op == "**" and isinstance(b, int) and b == 2:
        return Sym(t, x * x)
    raise PyvcUnsupported(f"arith {op} on {ta},{tb}")


def py_floordiv(x, y):
    # z3 int div equals python floor division for y > 0 (the executor checks y > 0 before using it)
    return x / y


def py_mod(x, y):
    # for y > 0 z3's mod equals python's; y <= 0 is guarded by callers via an obligation
    return x % y


def v_int_trunc(a):
    """python int(x): truncation toward zero on reals"""
    if isinstance(a, (int, float, Fraction)):
        return int(a)
    if a.ty is IntT:
        return a
    if a.ty is BoolT:
        return v_ite(a, 1, 0)
    if a.ty is RealT:
        fl = z3.ToInt(a.e)  # floor
        return Sym(IntT, z3.If(a.e >= 0, fl, z3.If(z3.ToReal(fl) == a.e, fl, fl + 1)))
    raise PyvcUnsupported(f"int() of {a.ty}")


# ------------------------------------------------------------------ structures
def v_getfield(v, name):
    t = v.ty
    if isinstance(t, OptTy):
        return v_getfield(v_unwrap(v), name)
    if isinstance(t, ClassTy):
        if t.has_field(name):
            return Sym(t.field_ty(name), t.world.accessor(t.cname, name)(v.e))
        raise AttributeError(f"{t.cname}.{name}")
    if isinstance(t, UnionTy):
        ms = [m for m in t.members() if ClassTy(t.world, m).has_field(name)]
        if not ms:
            raise AttributeError(f"{t.root}.{name}")
        ft = ClassTy(t.world, ms[0]).field_ty(name)
        if len(ms) == len(t.members()) and len({ClassTy(t.world, m).field_ty(name).name for m in ms}) == 1:
            # a field every member declares: one function symbol with a defining axiom per constructor
            # (small terms; the ITE chain over the constructors defeats E-matching)
            return Sym(ft, union_field_fn(t, name, ft)(v.e))
        # field of some members only: guarded chain (used in contracts; the executor forks instead)
        e = t.world.accessor(ms[-1], name)(v.e)
        for m in reversed(ms[:-1]):
            e = z3.If(t.world.recognizer(m)(v.e), t.world.accessor(m, name)(v.e), e)
        return Sym(ft, e)
    if isinstance(t, TupleTy) and name.startswith("_"):
        i = int(name[1:])
        return Sym(t.elems[i], t.get(v.e, i))
    raise AttributeError(f"{t.name}.{name}")


def v_replace(v, kw):
    t = v.ty
    if not isinstance(t, ClassTy):
        raise PyvcUnsupported(f"replace on {t}")
    vals = []
    for f, ft in t.fields():
        if f in kw:
            vals.append(coerce(kw[f], ft))
        else:
            vals.append(t.world.accessor(t.cname, f)(v.e))
    unknown = set(kw) - {f for f, _ in t.fields()}
    if unknown:
        raise PyvcUnsupported(f"replace: unknown fields {unknown} on {t.cname}")
    return Sym(t, t.world.ctor(t.cname)(*vals))


def v_construct(world, cname, kw):
    t = ClassTy(world, cname)
    vals = []
    for f, ft in t.fields():
        if f not in kw:
            raise PyvcUnsupported(f"construct {cname}: missing field {f}")
        vals.append(coerce(kw[f], ft))
    return Sym(t, world.ctor(cname)(*vals))


def v_isinstance(v, cname):
    if not isinstance(v, Sym):
        if cname == "str": return isinstance(v, str)
        if cname == "int": return isinstance(v, int)
        if cname == "float": return isinstance(v, float)
        return False
    t = v.ty
    if isinstance(t, OptTy):
        return v_and(v_not(v_is_none(v)), v_isinstance(v_unwrap(v), cname))
    if isinstance(t, ClassTy):
        return t.world.repo.is_subclass(t.cname, cname)
    if isinstance(t, UnionTy):
        if cname == t.root:
            return True
        ms = [m for m in t.members() if t.world.repo.is_subclass(m, cname)]
        if not ms:
            return False
        return mkbool(z3.Or(*[t.world.recognizer(m)(v.e) for m in ms]))
    if cname in ("str", "VehicleId", "InstructionGeneratorId"):
        return t is StrT
    if cname == "int":
        return t is IntT
    if cname == "float":
        return t is RealT
    return False


def v_narrow(v, cname):
    t = v.ty
    if isinstance(t, OptTy):
        return v_narrow(v_unwrap(v), cname)
    if isinstance(t, UnionTy):
        return Sym(ClassTy(t.world, cname), v.e)
    if isinstance(t, ClassTy) and t.cname != cname and t.root and t.world.union_root(cname) == t.root:
        # viewing a member as another member of the same union (only meaningful under the matching recognizer)
        return Sym(ClassTy(t.world, cname), v.e)
    return v


def v_len(v):
    if isinstance(v, (tuple, list)):
        return len(v)
    if isinstance(v, EmptyColl):
        return 0
    if isinstance(v, PyDict):
        return len(v.items)
    if isinstance(v, Sym):
        if isinstance(v.ty, SeqTy):
            return Sym(IntT, z3.Length(v.e))
        if isinstance(v.ty, (MapTy, SetTy)):
            return Sym(IntT, card(v))
    raise PyvcUnsupported(f"len of {v!r}")


_card_fns = {}


def card(v):
    """cardinality of a finite map/set: uninterpreted, constrained only by card>=0 and card=0 <=> empty"""
    key = v.ty.name
    if key not in _card_fns:
        _card_fns[key] = z3.Function("card_" + key, v.ty.sort, z3.IntSort())
    return _card_fns[key](v.e)


def card_axioms_for(terms):
    """terms: list of Sym (map/set) whose card() occurs"""
    out = []
    for v in terms:
        c = card(v)
        out.append(c >= 0)
        out.append((c == 0) == (v.e == v.ty.empty()))
    return out


def v_index(v, k):
    if isinstance(v, (tuple, list)):
        if isinstance(k, int):
            return v[k]
        raise PyvcUnsupported("symbolic index into literal tuple")
    if isinstance(v, Sym):
        t = v.ty
        if isinstance(t, OptTy):
            return v_index(v_unwrap(v), k)
        if isinstance(t, TupleTy):
            if isinstance(k, int):
                return Sym(t.elems[k], t.get(v.e, k))
        if isinstance(t, SeqTy):
            n = z3.Length(v.e)
            if isinstance(k, int):
                idx = z3.IntVal(k) if k >= 0 else n + k
            else:
                idx = coerce(k, IntT)
            return Sym(t.elem, v.e[idx])
        if isinstance(t, MapTy):
            return Sym(t.val, t.opt.val(z3.Select(v.e, coerce(k, t.key))))
    raise PyvcUnsupported(f"index {v!r}[{k!r}]")


def v_slice(v, lo, hi):
    if isinstance(v, (tuple, list)):
        return tuple(v)[lo:hi]
    if isinstance(v, Sym) and isinstance(v.ty, SeqTy):
        n = z3.Length(v.e)
        lo_e = z3.IntVal(0) if lo is None else coerce(lo, IntT)
        if hi is None:
            return Sym(v.ty, z3.SubSeq(v.e, lo_e, n - lo_e))
        hi_e = coerce(hi, IntT)
        return Sym(v.ty, z3.SubSeq(v.e, lo_e, hi_e - lo_e))
    raise PyvcUnsupported("slice")


def v_map_get(m, k, default=None):
    if isinstance(m, EmptyColl):
        return default
    t = m.ty
    if isinstance(t, OptTy):
        return v_map_get(v_unwrap(m), k, default)
    if not isinstance(t, MapTy):
        raise PyvcUnsupported(f".get on {t}")
    cell = z3.Select(m.e, coerce(k, t.key))
    if default is None:
        return Sym(t.opt, cell)
    return Sym(t.val, z3.If(t.opt.is_some(cell), t.opt.val(cell), coerce(default, t.val)))


def v_contains(m, k):
    if isinstance(m, EmptyColl):
        return False
    if isinstance(m, (tuple, list)):
        if not m:
            return False
        return v_or(*[v_eq(k, x) for x in m])
    if isinstance(m, PySet):
        return v_or(*[v_eq(k, x) for x in m.items]) if m.items else False
    t = m.ty
    if isinstance(t, OptTy):
        return v_contains(v_unwrap(m), k)
    if isinstance(t, MapTy):
        return mkbool(t.opt.is_some(z3.Select(m.e, coerce(k, t.key))))
    if isinstance(t, SetTy):
        return mkbool(z3.Select(m.e, coerce(k, t.elem)))
    if isinstance(t, SeqTy):
        # membership as an index: exists j. 0 <= j < len /\ seq[j] == x  (friendlier to instantiation than seq.contains)
        j = z3.Int(fresh_name("mj"))
        return mkbool(z3.Exists([j], z3.And(j >= 0, j < z3.Length(m.e), m.e[j] == coerce(k, t.elem))))
    raise PyvcUnsupported(f"in on {t}")


def v_map_set(m, k, v):
    if isinstance(m, EmptyColl):
        kt, vt = ty_of(k), ty_of(v)
        t = MapTy(kt, vt)
        m = Sym(t, t.empty())
    t = m.ty
    return Sym(t, z3.Store(m.e, coerce(k, t.key), t.opt.some(coerce(v, t.val))))


def v_map_delete(m, k):
    t = m.ty
    return Sym(t, z3.Store(m.e, coerce(k, t.key), t.opt.none()))


def v_set_add(s, x):
    if isinstance(s, EmptyColl):
        t = SetTy(ty_of(x))
        s = Sym(t, t.empty())
    t = s.ty
    return Sym(t, z3.Store(s.e, coerce(x, t.elem), z3.BoolVal(True)))


def v_set_remove(s, x):
    if isinstance(s, EmptyColl):
        return s
    t = s.ty
    return Sym(t, z3.Store(s.e, coerce(x, t.elem), z3.BoolVal(False)))


def elems_of(v):
    """meta-level list of elements of a literal collection, or None if symbolic"""
    if isinstance(v, (tuple, list)):
        return list(v)
    if isinstance(v, PySet):
        return list(v.items)
    if isinstance(v, EmptyColl):
        return []
    return None


def And(*xs): return v_and(*xs)
def Or(*xs): return v_or(*xs)
def Not(x): return v_not(x)
def Implies(a, b): return v_implies(a, b)
def Ite(c, a, b): return v_ite(c, a, b)
def Iff(a, b): return mkbool(z3_bool(a) == z3_bool(b))


# ------------------------------------------------------------------ uninterpreted membership of sequences
_MEM_FNS = {}


def seq_mem_z3(seq_e, x_e):
    """M(seq, x): carrier predicate for `x is an element of seq`, related to indices only through the facts the
    sequence models (sorted, filter, concat, enumeration) assert — avoids goal-side existentials"""
    key = str(seq_e.sort())
    if key not in _MEM_FNS:
        _MEM_FNS[key] = z3.Function("M_" + key.replace("(", "_").replace(")", "").replace(" ", ""), seq_e.sort(), x_e.sort(), z3.BoolSort())
    return _MEM_FNS[key](seq_e, x_e)


def seq_mem(seq, x):
    return mkbool(seq_mem_z3(seq.e, coerce(x, seq.ty.elem)))


def mem_all_indices(seq_e):
    i = z3.Int(fresh_name("mi"))
    return z3.ForAll([i], z3.Implies(z3.And(i >= 0, i < z3.Length(seq_e)), seq_mem_z3(seq_e, seq_e[i])))


_POS_FNS = {}


def seq_pos_z3(seq_e, x_e):
    """POS(seq, x): some index at which x occurs in seq (choice function; constrained only for members)"""
    key = str(seq_e.sort())
    if key not in _POS_FNS:
        _POS_FNS[key] = z3.Function("POS_" + key.replace("(", "_").replace(")", "").replace(" ", ""), seq_e.sort(), x_e.sort(), z3.IntSort())
    return _POS_FNS[key](seq_e, x_e)


def seq_pos(seq, x):
    return Sym(IntT, seq_pos_z3(seq.e, coerce(x, seq.ty.elem)))


def mem_has_position(seq_e, elem_sort):
    """every member of the sequence occurs at its POS index"""
    x = z3.Const(fresh_name("px"), elem_sort)
    p = seq_pos_z3(seq_e, x)
    return z3.ForAll([x], z3.Implies(seq_mem_z3(seq_e, x), z3.And(p >= 0, p < z3.Length(seq_e), seq_e[p] == x)))


_KPOS_FNS = {}


def items_kpos_z3(items_e, key_e):
    """KPOS(items, k): the index at which key k occurs in the item sequence of a map (constrained by the enumeration)"""
    key = (str(items_e.sort()), str(key_e.sort()))
    if key not in _KPOS_FNS:
        _KPOS_FNS[key] = z3.Function("KPOS_%d" % len(_KPOS_FNS), items_e.sort(), key_e.sort(), z3.IntSort())
    return _KPOS_FNS[key](items_e, key_e)


def items_kpos(items, key):
    return Sym(IntT, items_kpos_z3(items.e, coerce(key, items.ty.elem.elems[0])))


_UNION_FIELD_FNS = {}
_UNION_AXIOMS = []


def union_field_fn(t, name, ft):
    key = (t.root, name)
    if key not in _UNION_FIELD_FNS:
        f = z3.Function(f"{t.root}__{name}", t.sort, ft.sort)
        _UNION_FIELD_FNS[key] = f
        x = z3.Const(f"uf_x_{t.root}_{name}", t.sort)
        for m in t.members():
            _UNION_AXIOMS.append(z3.ForAll([x], z3.Implies(t.world.recognizer(m)(x), f(x) == t.world.accessor(m, name)(x)),
                                           patterns=[f(x)]))
    return _UNION_FIELD_FNS[key]


def union_axioms():
    return list(_UNION_AXIOMS)
