"""Sidecar contract DSL: requires / ensures on the real functions, keyed by 'path::Class.method'."""
from __future__ import annotations
import ast
import z3
from .tys import *
from .values import *
from .builtins import SuccessV, FailureV


class NS:
    """argument namespace handed to contract clauses"""

    def __init__(self, d):
        self.__dict__.update(d)

    def __getitem__(self, k):
        return self.__dict__[k]


def normalize(v, ty):
    """bring a returned value to the declared return type (so clauses can treat results uniformly)"""
    if ty is None or type(v).__name__ == "PyRecord":
        return v
    if isinstance(ty, TupleTy):
        if isinstance(v, (tuple, list)) and len(v) == len(ty.elems):
            return tuple(normalize(x, t) for x, t in zip(v, ty.elems))
        if isinstance(v, Sym) and isinstance(v.ty, TupleTy):
            return tuple(normalize(Sym(t, v.ty.get(v.e, i)), t2) for i, (t, t2) in enumerate(zip(v.ty.elems, ty.elems)))
        raise PyvcUnsupported(f"result {v!r} does not fit {ty}")
    if isinstance(ty, ResultTy):
        if isinstance(v, SuccessV):
            return Sym(ty, ty.success(coerce(v.val, ty.elem)))
        if isinstance(v, FailureV):
            return Sym(ty, ty.failure(coerce(v.exc, ExcT)))
        if isinstance(v, Sym) and v.e.sort() == ty.sort:
            return v
        raise PyvcUnsupported(f"result {v!r} does not fit {ty}")
    if isinstance(v, Sym) and v.e.sort() == ty.sort:
        return Sym(ty, v.e) if not isinstance(v.ty, ClassTy) else v
    return Sym(ty, coerce(v, ty))


def fresh_value(ty, prefix="r"):
    if isinstance(ty, TupleTy):
        return tuple(fresh_value(t, prefix) for t in ty.elems)
    return fresh(ty, prefix)


class Clause:
    def __init__(self, name, fn, props=()):
        self.name, self.fn, self.props = name, fn, tuple(props)


class Spec:
    def __init__(self, key, arg_types=None, ret=None, doc=""):
        self.key = key
        self.arg_types = arg_types or {}
        self.ret = ret
        self.pre = []
        self.post = []
        self.may_raise = True      # explicit/implicit raise paths allowed unless no_raise()
        self.raise_props = ()
        self.reports_fn = None
        self.doc = doc
        self.trusted = False       # assumed contract (never verified): listed in evidence
        self.frame_props = ()

    def requires(self, name, fn):
        self.pre.append(Clause(name, fn))
        return self

    def ensures(self, name, fn, props=()):
        self.post.append(Clause(name, fn, props))
        return self

    def no_raise(self, props=()):
        self.may_raise = False
        self.raise_props = tuple(props)
        return self

    def assume_only(self):
        self.trusted = True
        return self

    # ---- modular use at a call site
    def apply_at_call(self, ex, bound, st, callid):
        from .exec import Obligation
        a = NS(bound)
        for c in self.pre:
            cond = c.fn(a)
            if isinstance(cond, bool) and cond:
                continue
            ex.obligations.append(Obligation(f"{callid}.{self.key.split('::')[1]}.pre.{c.name}", "call-pre",
                                             list(st.hyps), z3_bool(cond), {"callee": self.key}))
            st = st.assume(cond)
        ret_ty = self.ret_ty(ex)
        if ret_ty is None:
            raise PyvcUnsupported(f"opaque call to {self.key} without return type")
        res = fresh_value(ret_ty, "ret_" + self.key.split("::")[1].replace(".", "_"))
        for c in self.post:
            st = st.assume(c.fn(a, res))
        return res, st

    def ret_ty(self, ex):
        if self.ret is not None:
            return self.ret
        fn, modpath, cls = ex.repo.func(self.key)
        if fn.returns is None:
            return None
        return ex.world.ann_to_ty(fn.returns, modpath)


class SpecRegistry:
    def __init__(self):
        self.specs = {}
        self._iface = {}        # (base, method) -> fn(recv, args, result) -> [conds]
        self._iface_ret = {}
        self._lib = {}
        self.lemmas = []        # (id, props, builder(world) -> (hyps, goal))
        self.loop_specs = {}

    def spec(self, key, **kw):
        if key in self.specs:
            return self.specs[key]
        s = Spec(key, **kw)
        self.specs[key] = s
        return s

    def has(self, key):
        return key in self.specs

    def get(self, key):
        return self.specs[key]

    def iface(self, base, method, fn=None, ret=None):
        if fn is not None:
            self._iface.setdefault((base, method), []).append(fn)
        if ret is not None:
            self._iface_ret[(base, method)] = ret

    def iface_ret(self, base, method):
        return self._iface_ret.get((base, method))

    def iface_axioms(self, base, method, recv, args, result):
        out = []
        for fn in self._iface.get((base, method), []):
            r = fn(recv, args, result)
            out.extend(r if isinstance(r, (list, tuple)) else [r])
        return out

    def lib(self, name, fn):
        self._lib.setdefault(name, []).append(fn)

    def lib_axioms(self, name, args, result):
        out = []
        for fn in self._lib.get(name, []):
            r = fn(args, result)
            out.extend(r if isinstance(r, (list, tuple)) else [r])
        return out
