"""Sidecar contract DSL: requires / ensures on the real functions, keyed by 'path::Class.method'."""
from __future__ import annotations
import ast
import z3
from .tys import *
from .values import *
from .builtins import SuccessV, FailureV


class NS:
    """argument namespace handed to contract clauses"""

    def __init__(self, d):
        self.__dict__.update(d)

    def __getitem__(self, k):
        return self.__dict__[k]


def normalize(v, ty):
    """bring a returned value to the declared return type (so clauses can treat results uniformly)"""
    if ty is None or type(v).__name__ == "PyRecord":
        return v
    if type(v).__name__ == "SecV" and ty is IntT:
        return v.sec if isinstance(v.sec, Sym) else Sym(IntT, coerce(v.sec, IntT))
    if isinstance(ty, TupleTy):
        if isinstance(v, (tuple, list)) and len(v) == len(ty.elems):
            return tuple(normalize(x, t) for x, t in zip(v, ty.elems))
        if isinstance(v, Sym) and isinstance(v.ty, TupleTy):
            return tuple(normalize(Sym(t, v.ty.get(v.e, i)), t2) for i, (t, t2) in enumerate(zip(v.ty.elems, ty.elems)))
        raise PyvcUnsupported(f"result {v!r} does not fit {ty}")
    if isinstance(ty, ResultTy):
        if isinstance(v, SuccessV):
            return Sym(ty, ty.success(coerce(v.val, ty.elem)))
        if isinstance(v, FailureV):
            return Sym(ty, ty.failure(coerce(v.exc, ExcT)))
        if isinstance(v, Sym) and v.e.sort() == ty.sort:
            return v
        raise PyvcUnsupported(f"result {v!r} does not fit {ty}")
    if isinstance(v, Sym) and v.e.sort() == ty.sort:
        return Sym(ty, v.e) if not isinstance(v.ty, ClassTy) else v
    return Sym(ty, coerce(v, ty))


def fresh_value(ty, prefix="r"):
    if isinstance(ty, TupleTy):
        return tuple(fresh_value(t, prefix) for t in ty.elems)
    return fresh(ty, prefix)


class Clause:
    def __init__(self, name, fn, props=()):
        self.name, self.fn, self.props = name, fn, tuple(props)


class Spec:
    def __init__(self, key, arg_types=None, ret=None, doc=""):
        self.key = key
        self.arg_types = arg_types or {}
        self.ret = ret
        self.pre = []
        self.post = []
        self.may_raise = True      # explicit/implicit raise paths allowed unless no_raise()
        self.raise_props = ()
        self.reports_fn = None
        self.doc = doc
        self.trusted = False       # assumed contract (never verified): listed in evidence
        self.frame_props = ()
        self.lemma_fns = []
        self.state_post = []       # clauses over (args, result, final state of the stateful receiver)
        self.raise_post = []       # clauses over (args, exception class name, exception value, final state) on raising paths
        self.mutable_self = None   # field types of a stateful receiver whose state is threaded through the execution
        self.ghost_defs = []       # definitions of ghost (spec) functions assumed while the body is verified
        self.defs = []             # definitional clauses (ghost result functions): assumed at call sites, never verified

    def requires(self, name, fn):
        self.pre.append(Clause(name, fn))
        return self

    def ensures(self, name, fn, props=()):
        self.post.append(Clause(name, fn, props))
        return self

    def no_raise(self, props=()):
        self.may_raise = False
        self.raise_props = tuple(props)
        return self

    def assume_only(self, why=""):
        """assumed contract: used at call sites, never verified (listed in every evidence file that uses it)"""
        self.trusted = True
        self.trusted_why = why
        return self

    def determined_by(self, name, fn, props=()):
        """definitional clause `result == ghost_fn(arguments)`: names the function's result as a (ghost, uninterpreted)
        function of its arguments.  It is an *assumption* (the call is deterministic and depends on nothing but the
        values of its arguments); it is assumed at call sites, never verified against the body, and listed in the
        evidence."""
        self.defs.append(Clause(name, fn, props))
        return self

    def stateful(self, fields):
        """the receiver is a stateful object (plain class with attribute stores): its fields (name -> type, or
        ("iterator", SeqTy) for an underlying iterator) are threaded through the execution; `ensures_state` / `on_raise`
        clauses relate the final field values to the initial ones"""
        self.mutable_self = dict(fields)
        return self

    def ensures_state(self, name, fn, props=()):
        self.state_post.append(Clause(name, fn, props))
        return self

    def on_raise(self, name, fn, props=()):
        self.raise_post.append(Clause(name, fn, props))
        return self

    def ghost_definition(self, name, fn):
        """defining equations of a ghost spec function (primitive recursion: a conservative extension), as hypotheses
        of every obligation of this function (loop invariants included): fn(a) -> formula"""
        self.ghost_defs.append((name, fn))
        return self

    def uses_lemma(self, name, fn):
        """instances of a separately proved lemma (Lean, /verif/lemmas) added as hypotheses while this function's
        own clauses are verified: fn(a, r) -> formula.  Not exported to callers."""
        self.lemma_fns.append((name, fn))
        return self

    def files(self, fn):
        """ghost effect: fn(a, r) -> [(cond, report_type_name, {field: value})] reports filed by the call"""
        self.reports_fn = fn
        return self

    def report(self, rtype, fields_fn):
        """the function returns a Report of this type with (at least) these fields"""
        self.report_type = rtype
        self.report_fields = fields_fn
        self.report_props = ()
        return self

    # ---- modular use at a call site
    def apply_at_call(self, ex, bound, st, callid):
        from .exec import Obligation
        a = NS(bound)
        for c in self.pre:
            cond = c.fn(a)
            if isinstance(cond, bool) and cond:
                continue
            ex.obligations.append(Obligation(f"{callid}.{self.key.split('::')[1]}.pre.{c.name}", "call-pre",
                                             list(st.hyps), z3_bool(cond), {"callee": self.key}))
            st = st.assume(cond)
        if getattr(self, "report_type", None) is not None:
            from .exec import Report
            rt = ex.world.class_ty("ReportType")
            return Report(Sym(rt, rt.const(self.report_type)), dict(self.report_fields(a))), st
        ret_ty = self.ret_ty(ex)
        if ret_ty is None:
            if getattr(self, "returns_none", False):
                return None, st
            raise PyvcUnsupported(f"opaque call to {self.key} without return type")
        res = fresh_value(ret_ty, "ret_" + self.key.split("::")[1].replace(".", "_"))
        for c in self.post:
            if "reports" in c.fn.__code__.co_varnames[:c.fn.__code__.co_argcount]:
                continue        # clauses about the ghost log are carried by the `files` effect instead
            st = st.assume(c.fn(a, res))
        for c in self.defs:
            st = st.assume(c.fn(a, res))
        return res, st

    def ret_ty(self, ex):
        if self.ret is not None:
            return self.ret
        fn, modpath, cls = ex.repo.func(self.key)
        if fn.returns is None:
            return None
        return ex.world.ann_to_ty(fn.returns, modpath)


class SpecRegistry:
    def __init__(self):
        self.specs = {}
        self._iface = {}        # (base, method) -> fn(recv, args, result) -> [conds]
        self._iface_ret = {}
        self._lib = {}
        self.lemmas = []        # (id, props, builder(world) -> (hyps, goal))
        self.loop_specs = {}
        self.virtuals = set()

    def spec(self, key, **kw):
        if key in self.specs:
            return self.specs[key]
        s = Spec(key, **kw)
        self.specs[key] = s
        return s

    def has(self, key):
        return key in self.specs

    def get(self, key):
        return self.specs[key]

    def iface(self, base, method, fn=None, ret=None):
        if fn is not None:
            self._iface.setdefault((base, method), []).append(fn)
        if ret is not None:
            self._iface_ret[(base, method)] = ret

    def iface_ret(self, base, method):
        return self._iface_ret.get((base, method))

    def iface_axioms(self, base, method, recv, args, result):
        out = []
        for fn in self._iface.get((base, method), []):
            r = fn(recv, args, result)
            out.extend(r if isinstance(r, (list, tuple)) else [r])
        return out

    # ---- behavioural subtyping: one contract for a dynamically dispatched method of a closed union
    def virtual(self, root, method):
        """declare that calls `x.method(...)` on a value of union `root` use the members' contracts without forking:
        the virtual contract is the conjunction of the member contracts, each guarded by its constructor"""
        self.virtuals.add((root, method))

    def virtual_apply(self, ex, root, method, recv, bound, st, callid):
        from .exec import Obligation
        world = ex.world
        members = world.union_members(root)
        specs = []
        for m in members:
            fn, owner = ex.repo.find_method(m, method)
            key = f"{ex.repo.classes[owner].path}::{owner}.{method}"
            if key not in self.specs:
                raise PyvcUnsupported(f"dynamic dispatch {root}.{method}: member {m} has no contract ({key})")
            specs.append((m, self.specs[key]))
        def shared(kind, fn):
            return all(any(c.fn is fn for c in getattr(sp, kind)) for _, sp in specs)
        selfname = next(iter(bound))
        done = set()
        # preconditions: every member's requires (guarded by its constructor unless shared by all members)
        for m, sp in specs:
            b = dict(bound)
            b[selfname] = Sym(ClassTy(world, m), recv.e)
            guard = world.recognizer(m)(recv.e)
            a = NS(b)
            for c in sp.pre:
                if shared("pre", c.fn):
                    if id(c.fn) in done:
                        continue
                    done.add(id(c.fn))
                    cond, hy = c.fn(NS(bound)), list(st.hyps)
                else:
                    cond, hy = c.fn(a), list(st.hyps) + [guard]
                if isinstance(cond, bool) and cond:
                    continue
                ex.obligations.append(Obligation(f"{callid}.{root}.{method}[{m}].pre.{c.name}", "call-pre",
                                                 hy, z3_bool(cond), {"callee": sp.key}))
        ret_ty = specs[0][1].ret_ty(ex)
        res = fresh_value(ret_ty, f"ret_{root}_{method}")
        done = set()
        for m, sp in specs:
            b = dict(bound)
            b[selfname] = Sym(ClassTy(world, m), recv.e)
            guard = world.recognizer(m)(recv.e)
            a = NS(b)
            for c in sp.pre:
                if shared("pre", c.fn):
                    if id(c.fn) not in done:
                        done.add(id(c.fn))
                        st = st.assume(c.fn(NS(bound)))
                else:
                    st = st.assume(z3.Implies(guard, z3_bool(c.fn(a))))
            for c in sp.post:
                if "reports" in c.fn.__code__.co_varnames[:c.fn.__code__.co_argcount]:
                    continue
                if shared("post", c.fn):
                    if id(c.fn) not in done:
                        done.add(id(c.fn))
                        st = st.assume(c.fn(NS(bound), res))
                else:
                    st = st.assume(z3.Implies(guard, z3_bool(c.fn(a, res))))
            if sp.reports_fn is not None:
                raise PyvcUnsupported(f"virtual dispatch of {root}.{method}: member {m} files reports (fork needed)")
        return res, st

    def loop(self, key, kind, ordinal, **kw):
        """inductive invariant for the `ordinal`-th loop of kind 'while'/'for'/'reduce' in function `key`"""
        self.loop_specs[(key, kind, ordinal)] = kw

    def attr(self, base, name, ty):
        """type of a plain attribute of an abstract object (class with __init__, no field annotations)"""
        self._iface_ret[(base, "." + name)] = ty

    def lib(self, name, fn):
        self._lib.setdefault(name, []).append(fn)

    def lib_axioms(self, name, args, result):
        out = []
        for fn in self._lib.get(name, []):
            r = fn(args, result)
            out.extend(r if isinstance(r, (list, tuple)) else [r])
        return out
