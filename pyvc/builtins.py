"""Builtins, library stubs and value methods for the executor."""
from __future__ import annotations
import ast
import z3
from .tys import *
from .values import *


class MapView:
    """m.items() / m.keys() / m.values() of a symbolic Map, or iteration of a symbolic set: unordered"""

    def __init__(self, coll, kind):
        self.coll, self.kind = coll, kind

    def __repr__(self):
        return f"<view {self.kind} of {self.coll!r}>"


class DatetimeV:
    """datetime.utcfromtimestamp(t): only .time() is modelled (seconds of day = t mod 86400, assumed)"""

    def __init__(self, epoch):
        self.epoch = epoch


class SecV:
    """datetime.datetime (kind 'dt', built by datetime.combine(date.min, t)) or datetime.timedelta (kind 'td') as a whole
    number of seconds; timedelta.days = floor(seconds / 86400) (Python normalises 0 <= .seconds < 86400)"""

    def __init__(self, kind, sec):
        self.kind, self.sec = kind, sec


class PartialV:
    """functools.partial(f, **kw)"""

    def __init__(self, fn, args, kw):
        self.fn, self.args, self.kw = fn, list(args), dict(kw)


class SuccessV:
    def __init__(self, val):
        self.val = val


class FailureV:
    def __init__(self, exc):
        self.exc = exc


# return types of library functions modelled as uninterpreted functions (assumed contracts: axioms.py)
LIB_UF = {
    "h3.h3_to_parent": StrT,
    "h3.geo_to_h3": StrT,
    "h3.h3_distance": IntT,
    "h3.h3_get_resolution": IntT,
    "h3.h3_is_valid": BoolT,
    "h3.h3_line": SeqTy(StrT),
    "h3.h3_to_geo": TupleTy([RealT, RealT]),
    "h3.point_dist": RealT,
    "math.sqrt": RealT,
    "math.radians": RealT,
    "math.sin": RealT,
    "math.cos": RealT,
    "math.asin": RealT,
    "math.atan2": RealT,
    "math.floor": IntT,
    "math.ceil": IntT,
    "np.interp": RealT,
    "numpy.interp": RealT,
    "float_parses": BoolT,
    "float_of_str": RealT,
}
NOOP_PREFIXES = ("opaque.", "log.", "logging.", "warnings.")


def _norm_exc(v):
    if isinstance(v, ExcVal):
        return v
    return v


def call_builtin(ex, name, args, kw, st, where, env):
    if name.startswith(NOOP_PREFIXES) or name in ("print",):
        yield None, st
        return
    if name == "len":
        x = args[0]
        if isinstance(x, MapView):
            x = x.coll
        r = v_len(x)
        if isinstance(x, Sym) and isinstance(x.ty, (MapTy, SetTy)):
            st = st.assume(*card_axioms_for([x]))
        yield r, st
        return
    if name == "isinstance":
        yield isinstance_(ex, args[0], args[1]), st
        return
    if name == "getattr" and len(args) == 2 and isinstance(args[0], Sym) and isinstance(args[0].ty, (AbstractTy, OptTy)) \
            and isinstance(args[1], Sym) and args[1].ty is StrT:
        # getattr(obj, name) with a symbolic attribute name on an abstract object: an uninterpreted function of the
        # object and the name (AttributeError not modelled: the caller names an attribute its items carry)
        obj = args[0]
        if isinstance(obj.ty, OptTy):
            st_ok, raises = ex.guard(st, v_not(v_is_none(obj)), "AttributeError", where)
            yield from raises
            if st_ok is None:
                return
            obj, st = v_unwrap(obj), st_ok
        ex.iface_used.add("getattr(item, step_attr_name) is a function of the item and the name; the attribute exists")
        yield ex.uf_apply("getattr_dyn", [obj, args[1]], AbstractTy("StepValue")), st
        return
    if name == "hasattr":
        yield hasattr_(ex, args[0], args[1]), st
        return
    if name in ("tuple", "list"):
        if not args:
            yield EmptyColl("seq"), st
            return
        x = args[0]
        if isinstance(x, (tuple, list)):
            yield (tuple(x) if name == "tuple" else list(x)), st
            return
        if isinstance(x, EmptyColl):
            yield EmptyColl("seq"), st
            return
        if isinstance(x, Sym) and isinstance(x.ty, SeqTy):
            yield x, st
            return
        if isinstance(x, PySet):
            raise PyvcUnsupported("ordering of a set literal")
        if isinstance(x, MapView) or (isinstance(x, Sym) and isinstance(x.ty, (SetTy, MapTy))):
            yield from ex.enumerate_unordered(x, st, where)
            return
        raise PyvcUnsupported(f"{name}({x!r})")
    if name in ("int",):
        x = args[0]
        if isinstance(x, (Opaque, str)):
            raise PyvcUnsupported("int() of text")
        yield v_int_trunc(x), st
        return
    if name == "float":
        x = args[0]
        if isinstance(x, str) and x.strip().lower() in ("inf", "+inf", "infinity", "-inf", "-infinity"):
            # an infinity: a constant above (below) every number it is compared with under the stated finiteness
            # preconditions; arithmetic on it is not modelled (flagged where it would matter)
            neg = x.strip().startswith("-")
            yield Sym(RealT, NEG_INF if neg else POS_INF), st.assume(NEG_INF < POS_INF)
            return
        if isinstance(x, (int, float)) or type(x).__name__ == "Fraction":
            yield x, st
            return
        if isinstance(x, Sym) and x.ty in (IntT, RealT):
            yield Sym(RealT, coerce(x, RealT)), st
            return
        if isinstance(x, Sym) and x.ty is StrT:
            # parsing text: either ValueError or some number (an uninterpreted function of the text)
            # (whether a text parses is an uninterpreted predicate of the text: the same text always behaves the same)
            for b_, st_ in ex.fork(st, ex.uf_apply("float_parses", [x], BoolT)):
                if b_:
                    yield ex.uf_apply("float_of_str", [x], RealT), st_
                else:
                    yield Raised(ExcVal("ValueError"), where), st_
            return
        raise PyvcUnsupported("float() of non-number")
    if name == "bool":
        yield truth(args[0]), st
        return
    if name in ("str", "repr", "type", "id"):
        x = args[0] if args else ""
        if name == "str" and isinstance(x, Sym) and x.ty is StrT:
            yield x, st
        elif name == "str" and isinstance(x, str):
            yield x, st
        else:
            yield Opaque(name), st
        return
    if name == "abs":
        x = args[0]
        if isinstance(x, Sym):
            yield Sym(x.ty, z3.If(x.e >= 0, x.e, -x.e)), st
        else:
            yield abs(x), st
        return
    if name == "round":
        raise PyvcUnsupported("round()")
    if name == "range":
        if all(isinstance(a, int) for a in args):
            yield list(range(*args)), st
            return
        # symbolic range: a sequence of ints with explicit length and elements
        lo = 0 if len(args) == 1 else args[0]
        hi = args[0] if len(args) == 1 else args[1]
        stepv = args[2] if len(args) > 2 else 1
        if isinstance(stepv, Sym):
            st_ok, raises = ex.guard(st, v_not(v_eq(stepv, 0)), "ValueError", where)
            yield from raises
            if st_ok is None:
                return
            st = st_ok
            if not ex.entails(st, v_cmp(">", stepv, 0)):
                raise PyvcUnsupported("range with a step not provably positive")
        elif stepv <= 0:
            raise PyvcUnsupported("range with non-positive step")
        lo_e, hi_e, st_e = coerce(lo, IntT), coerce(hi, IntT), coerce(stepv, IntT)
        r = z3.Const(fresh_name("range"), z3.SeqSort(z3.IntSort()))
        i = z3.Int(fresh_name("ri"))
        n = z3.If(hi_e <= lo_e, 0, (hi_e - lo_e + st_e - 1) / st_e)
        if not hasattr(ex, "range_info"):
            ex.range_info = {}
        ex.range_info[r.get_id()] = (r, lo_e, st_e, n)
        yield Sym(SeqTy(IntT), r), st.assume(z3.Length(r) == n, z3.ForAll([i], z3.Implies(z3.And(i >= 0, i < n), r[i] == lo_e + i * st_e)))
        return
    if name in ("numpy.full", "np.full"):
        shape, fill = args[0], args[1]
        if not (isinstance(shape, (tuple, list)) and len(shape) == 2):
            raise PyvcUnsupported("np.full with a shape that is not a pair")
        n_, m_ = coerce(shape[0], IntT), coerce(shape[1], IntT)
        t = NpArr2Ty(n_, m_)
        yield Sym(t, z3.K(z3.IntSort(), z3.K(z3.IntSort(), coerce(fill, RealT)))), st
        return
    if name in ("scipy.optimize.linear_sum_assignment", "linear_sum_assignment"):
        tb = args[0]
        if not (isinstance(tb, Sym) and isinstance(tb.ty, NpArr2Ty)):
            raise PyvcUnsupported("linear_sum_assignment of a non-array")
        n_, m_ = Sym(IntT, tb.ty.n), Sym(IntT, tb.ty.m)
        rows = ex.uf_apply("lsa_rows", [tb, n_, m_], SeqTy(IntT))
        cols = ex.uf_apply("lsa_cols", [tb, n_, m_], SeqTy(IntT))
        ex.iface_used.add("scipy.optimize.linear_sum_assignment")
        st2 = st
        if ex.specs is not None:
            for c in ex.specs.lib_axioms("scipy.optimize.linear_sum_assignment", [tb, n_, m_], (rows, cols)):
                st2 = st2.assume(c)
        yield (rows, cols), st2
        return
    if name in ("tqdm", "tqdm.tqdm"):
        yield args[0], st
        return
    if name == "enumerate":
        xs = elems_of(args[0])
        if xs is None:
            raise PyvcUnsupported("enumerate over symbolic sequence")
        yield [(i, x) for i, x in enumerate(xs)], st
        return
    if name in ("min", "max"):
        yield from minmax(ex, name, args, kw, st, where)
        return
    if name == "sum":
        xs = elems_of(args[0])
        if xs is None:
            raise PyvcUnsupported("sum over symbolic sequence")
        acc = args[1] if len(args) > 1 else 0
        for x in xs:
            acc = v_arith("+", acc, x)
        yield acc, st
        return
    if name in ("any", "all"):
        xs = elems_of(args[0])
        if xs is None:
            if isinstance(args[0], QuantSeq):
                yield args[0].quant(name), st
                return
            raise PyvcUnsupported(f"{name} over symbolic sequence")
        ts = [truth(x) for x in xs]
        if not ts:
            yield (name == "all"), st
        else:
            yield (v_or(*ts) if name == "any" else v_and(*ts)), st
        return
    if name in ("frozenset", "set"):
        if not args:
            yield EmptyColl("set"), st
            return
        x = args[0]
        xs = elems_of(x)
        if xs is not None:
            if not xs:
                yield EmptyColl("set"), st
                return
            t = SetTy(ty_of(xs[0]))
            yield Sym(t, coerce(list(xs), t)), st
            return
        if isinstance(x, Sym) and isinstance(x.ty, SetTy):
            yield x, st
            return
        if isinstance(x, Sym) and isinstance(x.ty, SeqTy):
            t = SetTy(x.ty.elem)
            k = z3.Const(fresh_name("k"), x.ty.elem.sort)
            # membership through the carrier M(seq, .) (= `occurs at some index`: both directions asserted here), which
            # the sequence models (sorted, filter, enumeration ...) also speak about
            yield Sym(t, z3.Lambda([k], seq_mem_z3(x.e, k))), st.assume(mem_all_indices(x.e), mem_has_position(x.e, x.ty.elem.sort))
            return
        if isinstance(x, MapView) and x.kind == "keys":
            m = x.coll
            t = SetTy(m.ty.key)
            k = z3.Const(fresh_name("k"), m.ty.key.sort)
            yield Sym(t, z3.Lambda([k], m.ty.opt.is_some(z3.Select(m.e, k)))), st
            return
        raise PyvcUnsupported(f"{name}({x!r})")
    if name in ("dict",):
        if not args:
            yield PyDict(), st
            return
        raise PyvcUnsupported("dict(x)")
    if name in ("Map", "immutables.Map"):
        if not args:
            yield EmptyColl("map"), st
            return
        x = args[0]
        if isinstance(x, PyDict):
            if not x.items:
                yield EmptyColl("map"), st
                return
            # values known not to be None are stored unwrapped
            x = PyDict([(k, (v_unwrap(v) if isinstance(v, Sym) and isinstance(v.ty, OptTy) and ex.entails(st, v_not(v_is_none(v))) else v))
                        for k, v in x.items])
            kt, vt = ty_of(x.items[0][0]), ty_of(x.items[0][1])
            for _, v in x.items:
                vt = unify(vt, ty_of(v), x.items[0][1], v) if ty_of(v) != vt else vt
            t = MapTy(kt, vt)
            yield Sym(t, coerce(x, t)), st
            return
        if isinstance(x, Sym) and isinstance(x.ty, MapTy):
            yield x, st
            return
        if isinstance(x, EmptyColl):
            yield EmptyColl("map"), st
            return
        raise PyvcUnsupported(f"Map({x!r})")
    if name == "replace" or name == "dataclasses.replace":
        obj = args[0]
        if isinstance(obj, Sym) and isinstance(obj.ty, OptTy):
            st_ok, raises = ex.guard(st, v_not(v_is_none(obj)), "TypeError", where)
            yield from raises
            if st_ok is None:
                return
            obj, st = v_unwrap(obj), st_ok
        if isinstance(obj, Sym) and isinstance(obj.ty, UnionTy):
            for m in obj.ty.members():
                st2 = st.assume(ex.world.recognizer(m)(obj.e))
                if ex.feasible(st2.pc):
                    yield v_replace(Sym(ClassTy(ex.world, m), obj.e), kw), st2
            return
        yield v_replace(obj, kw), st
        return
    if name in ("asdict", "dataclasses.asdict"):
        yield Opaque("asdict"), st
        return
    if name in ("reduce", "functools.reduce", "ft.reduce"):
        yield from reduce_(ex, args, st, where, env)
        return
    if name in ("partial", "functools.partial", "ft.partial"):
        yield PartialV(args[0], args[1:], kw), st
        return
    if name in ("uuid4", "uuid.uuid4"):
        u = fresh(AbstractTy("UUID"), "uuid")
        ex.fresh_uuids.append(u.e)
        yield u, st
        return
    if name in ("Success", "returns.result.Success"):
        yield SuccessV(args[0]), st
        return
    if name in ("Failure", "returns.result.Failure"):
        yield FailureV(args[0]), st
        return
    if name == "cast" or name == "typing.cast":
        yield args[1], st
        return
    if name == "sorted":
        yield from sorted_(ex, args, kw, st, where)
        return
    if name in ("itertools.tee", "it.tee"):
        yield (args[0], args[0]), st
        return
    if name in ("filter", "itertools.filterfalse", "it.filterfalse") and ex.iter_items(args[1], st) is None:
        yield from symbolic_filter(ex, args[0], args[1], name.endswith("filterfalse"), st, where)
        return
    if name in ("itertools.filterfalse", "it.filterfalse"):
        name = "filterfalse"
    if name in ("map", "filter", "zip", "filterfalse"):
        yield from mapfilterzip(ex, name, args, st, where)
        return
    if name == "datetime.datetime.combine":
        from .exec import Builtin
        if not (isinstance(args[0], Builtin) and args[0].name == "datetime.date.min"):
            raise PyvcUnsupported("datetime.combine with a date other than date.min")
        ex.iface_used.add("datetime.combine(date.min, t) - datetime.combine(date.min, s) == t - s seconds; timedelta.days == floor(seconds / 86400)")
        yield SecV("dt", args[1]), st
        return
    if name == "datetime.timedelta":
        if args:
            raise PyvcUnsupported("timedelta with positional arguments")
        tot = 0
        for k_, mult in (("days", 86400), ("hours", 3600), ("minutes", 60), ("seconds", 1)):
            if k_ in kw:
                tot = v_arith("+", tot, v_arith("*", kw[k_], mult))
        if set(kw) - {"days", "hours", "minutes", "seconds"}:
            raise PyvcUnsupported("timedelta with sub-second arguments")
        yield SecV("td", tot), st
        return
    if name.endswith("utcfromtimestamp"):
        ex.iface_used.add("datetime.utcfromtimestamp(t).time() == t mod 86400")
        yield DatetimeV(args[0]), st
        return
    if name in LIB_UF:
        ex.iface_used.add(name)
        r = ex.uf_apply(name, args, LIB_UF[name])
        st2 = st
        if ex.specs is not None:
            for c in ex.specs.lib_axioms(name, args, r):
                st2 = st2.assume(c)
        yield r, st2
        return
    if name in ("float.is_integer",):
        raise PyvcUnsupported(name)
    raise PyvcUnsupported(f"builtin/library call {name}")


def isinstance_(ex, v, c):
    if isinstance(c, (tuple, list)):
        return v_or(*[isinstance_(ex, v, x) for x in c])
    from .exec import ClassV, TypeRef, Builtin
    if isinstance(c, ClassV):
        cname = c.ci.name
    elif isinstance(c, (TypeRef, Builtin)):
        cname = c.name
    elif isinstance(c, str):
        cname = "str" if c == "" else None
    else:
        raise PyvcUnsupported(f"isinstance against {c!r}")
    if isinstance(v, Sym) and isinstance(v.ty, ResultTy) and cname in ("Exception", "BaseException"):
        # a value that is `either an Exception or a result` (parser functions): the failure alternative
        return mkbool(v.ty.is_failure(v.e))
    if isinstance(v, SuccessV):
        return cname == "Success"
    if isinstance(v, FailureV):
        return cname == "Failure"
    if cname in ("Failure", "Success", "returns.result.Failure", "returns.result.Success"):
        cname = cname.split(".")[-1]
        if isinstance(v, Sym) and isinstance(v.ty, ResultTy):
            return mkbool(v.ty.is_failure(v.e) if cname == "Failure" else v.ty.is_success(v.e))
        return False
    if isinstance(v, ExcVal):
        if cname in ("Exception", "BaseException"):
            return True
        return cname == v.cls or (v.cls in ex.repo.classes and cname in ex.repo.mro(v.cls))
    # typealiases resolve to str
    if cname in ("VehicleId", "RequestId", "StationId", "BaseId", "InstructionGeneratorId", "MembershipId", "str"):
        return v_isinstance(v, "str")
    return v_isinstance(v, cname)


def hasattr_(ex, v, name):
    if not isinstance(name, str):
        raise PyvcUnsupported("hasattr with symbolic name")
    if isinstance(v, Sym):
        t = v.ty
        if isinstance(t, OptTy):
            return v_and(v_not(v_is_none(v)), hasattr_(ex, v_unwrap(v), name))
        if isinstance(t, ClassTy):
            return t.has_field(name) or ex.repo.find_method(t.cname, name)[0] is not None
        if isinstance(t, UnionTy):
            ms = [m for m in t.members() if ClassTy(ex.world, m).has_field(name) or ex.repo.find_method(m, name)[0] is not None]
            if not ms:
                return False
            if len(ms) == len(t.members()):
                return True
            return mkbool(z3.Or(*[ex.world.recognizer(m)(v.e) for m in ms]))
    raise PyvcUnsupported(f"hasattr on {v!r}")


# ------------------------------------------------------------------ folds / sorting
def reduce_(ex, args, st, where, env=None):
    f, xs = args[0], args[1]
    init = args[2] if len(args) > 2 else None
    items = ex.iter_items(xs, st)
    if items is None:
        yield from fold_contract(ex, f, xs, init, st, where, env)
        return
    if init is None:
        if not items:
            yield Raised(ExcVal("TypeError"), where), st
            return
        init, items = items[0], items[1:]

    def go(i, acc, st):
        if i == len(items):
            yield acc, st
            return
        for v, st2 in ex.call_value(f, [acc, items[i]], {}, st, where):
            if isinstance(v, Raised):
                yield v, st2
            else:
                yield from go(i + 1, v, st2)
    yield from go(0, init, st)


def call_ordinal(ex, where, names, env=None):
    """ordinal of the call at line `where` among the calls to `names` in the function under verification"""
    try:
        fn, _, _ = ex.repo.func(ex.loop_key(env))
    except KeyError:
        return None
    calls = sorted({(c.lineno, c.col_offset) for c in ast.walk(fn) if isinstance(c, ast.Call)
                    and ((isinstance(c.func, ast.Attribute) and c.func.attr in names) or (isinstance(c.func, ast.Name) and c.func.id in names))})
    for k, (ln, _) in enumerate(calls):
        if ln == where:
            return k
    # multi-line calls: the Call node's lineno is the first line; `where` is that too
    return None


def fold_contract(ex, f, xs, init, st, where, env=None):
    """functools.reduce over a symbolic sequence with a sidecar invariant Inv(acc, i, xs, env):
    (1) Inv(init, 0)  (2) Inv(acc, i), 0<=i<len, acc' = f(acc, xs[i]) => Inv(acc', i+1)  (3) result: Inv(r, len)"""
    from .exec import Obligation
    from .spec import fresh_value, normalize
    if isinstance(xs, MapView) or (isinstance(xs, Sym) and isinstance(xs.ty, (SetTy, MapTy))):
        for u, st2 in ex.enumerate_unordered(xs, st, where):
            yield from fold_contract(ex, f, u, init, st2, where, env)
        return
    ordinal = call_ordinal(ex, where, ("reduce",), env)
    spec = ex.loop_specs.get((ex.loop_key(env), "reduce", ordinal))
    if spec is not None and "abstract_seq" in spec and isinstance(xs, Sym) and isinstance(xs.ty, AbstractTy):
        # an opaque iterator (file reader): some finite sequence of rows, unknown to the caller
        xs = fresh(spec["abstract_seq"], "rows")
    if not (isinstance(xs, Sym) and isinstance(xs.ty, SeqTy)):
        raise PyvcUnsupported(f"reduce over {xs!r}")
    if spec is None:
        raise PyvcUnsupported(f"reduce #{ordinal} over a symbolic sequence at line {where} of {ex.loop_key(env)} needs a fold contract")
    inv0, props = spec["invariant"], spec.get("props", ())
    from .spec import NS as _NS
    if inv0.__code__.co_argcount == 4:
        inv = lambda acc, i, xs_: inv0(acc, i, xs_, _NS({k_: v_ for k_, v_ in (env or {}).items() if not k_.startswith("__")}))
    else:
        inv = inv0
    acc_ty = spec.get("acc_type")
    if init is None:
        raise PyvcUnsupported("reduce without initial value over a symbolic sequence")
    acc0 = normalize(init, acc_ty) if acc_ty is not None else init
    n = Sym(IntT, z3.Length(xs.e))
    ex.obligations.append(Obligation(f"{ex.cur_key}.reduce{ordinal}.invariant_on_entry", "loop-inv", list(st.hyps),
                                     z3_bool(inv(acc0, 0, xs)), {"props": props}))
    aty = acc_ty or ty_of(acc0)
    if aty is None:
        raise PyvcUnsupported("fold accumulator without a symbolic type (give acc_type)")
    acc = fresh_value(aty, "fold_acc")
    i = fresh(IntT, "fold_i")
    st_i = st.assume(inv(acc, i, xs), i >= 0, i < n)
    for v, st2 in ex.call_value(f, [acc, Sym(xs.ty.elem, xs.e[i.e])], {}, st_i, where):
        if isinstance(v, Raised):
            yield v, st2
            continue
        v2 = normalize(v, acc_ty) if acc_ty is not None else v
        ex.obligations.append(Obligation(f"{ex.cur_key}.reduce{ordinal}.invariant_preserved", "loop-inv", list(st2.hyps),
                                         z3_bool(inv(v2, i + 1, xs)), {"props": props}))
    res = fresh_value(aty, "fold_result")
    yield res, st.assume(inv(res, n, xs))


def sorted_(ex, args, kw, st, where):
    xs = args[0]
    key = kw.get("key")
    rev = kw.get("reverse", False)
    if rev is not False:
        raise PyvcUnsupported("sorted(reverse=...)")
    items = ex.iter_items(xs, st)
    if items is not None and key is None and all(isinstance(x, (int, float, str)) for x in items):
        yield sorted(items), st
        return
    if items is not None and len(items) <= 1:
        yield list(items), st
        return
    if items is not None:
        t = ty_of(list(items))
        if not isinstance(t, SeqTy):
            raise PyvcUnsupported("sorted over a heterogeneous literal")
        xs = Sym(t, coerce(list(items), t))
    # base sequence u: the elements in some (arbitrary) order
    if isinstance(xs, Sym) and isinstance(xs.ty, SeqTy):
        bases = [(xs, st, False)]
    else:
        bases = [(u, st2, True) for u, st2 in ex.enumerate_unordered(xs, st, where)]
        # the arbitrary order is consumed by a sort: the site is order-independent iff the key is injective (C01)
        if ex.unordered_sites:
            ex.unordered_sites[-1] = ex.unordered_sites[-1] + ("sorted", where)
    for u, st_u, distinct in bases:
        et = u.ty.elem
        n = z3.Length(u.e)
        r = z3.Const(fresh_name("sorted"), u.ty.sort)
        i, j = z3.Int(fresh_name("si")), z3.Int(fresh_name("sj"))
        p = z3.Function(fresh_name("perm"), z3.IntSort(), z3.IntSort())
        q = z3.Function(fresh_name("perm_inv"), z3.IntSort(), z3.IntSort())
        facts = [z3.Length(r) == n,
                 z3.ForAll([i], z3.Implies(z3.And(i >= 0, i < n), z3.And(p(i) >= 0, p(i) < n, r[i] == u.e[p(i)], q(p(i)) == i))),
                 z3.ForAll([j], z3.Implies(z3.And(j >= 0, j < n), z3.And(q(j) >= 0, q(j) < n, u.e[j] == r[q(j)], p(q(j)) == j)))]
        # ordering by key: for i < j, not key(r[j]) < key(r[i])
        ri, rj = Sym(et, r[i]), Sym(et, r[j])
        st_k = st_u.assume(i >= 0, i < j, j < n)
        if key is None:
            ki, kj = ri, rj
        else:
            outs_i = [o for o in ex.call_value(key, [ri], {}, st_k, where)]
            outs_j = [o for o in ex.call_value(key, [rj], {}, st_k, where)]
            if len(outs_i) != 1 or len(outs_j) != 1 or isinstance(outs_i[0][0], Raised) or isinstance(outs_j[0][0], Raised):
                raise PyvcUnsupported("sort key that forks or raises")
            if len(outs_i[0][1].pc) != len(st_k.pc) or len(outs_j[0][1].pc) != len(st_k.pc):
                raise PyvcUnsupported("sort key that adds path constraints")
            ki, kj = outs_i[0][0], outs_j[0][0]
        lt = v_cmp("<", kj, ki)
        facts.append(z3.ForAll([i, j], z3.Implies(z3.And(i >= 0, i < j, j < n), z3.Not(z3_bool(lt)))))
        xm = z3.Const(fresh_name("xm"), et.sort)
        facts.append(mem_all_indices(r))
        facts.append(z3.ForAll([xm], seq_mem_z3(r, xm) == seq_mem_z3(u.e, xm)))
        facts.append(mem_has_position(r, et.sort))
        ex.sort_sites.append({"function": ex.cur_key, "line": where, "key_i": ki, "key_j": kj, "i": i, "j": j,
                              "r": Sym(u.ty, r), "from_unordered": distinct})
        yield Sym(u.ty, r), st_u.assume(*facts)


def mapfilterzip(ex, name, args, st, where):
    if name == "zip":
        cols = [ex.iter_items(a, st) for a in args]
        if any(c is None for c in cols):
            raise PyvcUnsupported("zip over symbolic sequence")
        yield [tuple(t) for t in zip(*cols)], st
        return
    f, xs = args
    items = ex.iter_items(xs, st)
    if items is None and name == "map" and isinstance(xs, Sym) and isinstance(xs.ty, SeqTy):
        yield from symbolic_map(ex, f, xs, st, where)
        return
    if items is None:
        raise PyvcUnsupported(f"{name} over symbolic sequence at line {where}")

    def go(i, acc, st):
        if i == len(items):
            yield acc, st
            return
        for v, st2 in ex.call_value(f, [items[i]], {}, st, where):
            if isinstance(v, Raised):
                yield v, st2
                continue
            if name == "map":
                yield from go(i + 1, acc + [v], st2)
            else:
                for b, st3 in ex.fork_truth(st2, v):
                    keep = b if name == "filter" else not b
                    yield from go(i + 1, acc + [items[i]] if keep else acc, st3)
    yield from go(0, [], st)


def symbolic_map(ex, f, xs, st, where):
    """map(f, xs) over a symbolic sequence. f is run once on the arbitrary element xs[i]; it may fork (its paths are
    merged into one value guarded by the path conditions it added) but must not raise or add quantified facts.
    Boolean results give a QuantSeq (usable in any()/all()); other results a fresh sequence constrained element-wise."""
    from . import values as _values
    import re as _re
    i = z3.Int(fresh_name("mi"))
    n = z3.Length(xs.e)
    st_i = st.assume(i >= 0, i < n)
    base, qbase = len(st_i.pc), len(st_i.qpc)
    n0 = next(_values._fresh)
    raw = []
    for v, st2 in ex.call_value(f, [Sym(xs.ty.elem, xs.e[i])], {}, st_i, where):
        if isinstance(v, Raised):
            raise PyvcUnsupported(f"map over a symbolic sequence with a raising function at line {where}")
        if len(st2.reports) != len(st_i.reports):
            raise PyvcUnsupported(f"map over a symbolic sequence: function files reports (line {where})")
        raw.append((list(st2.pc[base:]) + list(st2.qpc[qbase:]), v))
    n1 = next(_values._fresh)
    # constants created while running f (results of contract applications, library models) depend on the element:
    # they become functions of the index i before the path is put under the quantifier over i
    sk = {}

    def fresh_consts(e, seen):
        if e.get_id() in seen:
            return
        seen.add(e.get_id())
        if z3.is_quantifier(e):
            fresh_consts(e.body(), seen)
            return
        if z3.is_app(e):
            if e.num_args() == 0 and e.decl().kind() == z3.Z3_OP_UNINTERPRETED:
                m_ = _re.search(r"!(\d+)$", e.decl().name())
                if m_ and n0 < int(m_.group(1)) < n1 and e.get_id() not in sk:
                    sk[e.get_id()] = (e, z3.Function(e.decl().name() + "_at", z3.IntSort(), e.sort())(i))
            for ch in e.children():
                fresh_consts(ch, seen)

    def lift_i(e):
        return z3.substitute(e, *[(c, fi) for c, fi in sk.values()]) if sk else e
    outs = []
    for extras, v in raw:
        if not (isinstance(v, bool) or isinstance(v, Sym)):
            raise PyvcUnsupported(f"map over a symbolic sequence: element value {type(v).__name__} (line {where})")
        seen = set()
        for e_ in extras + ([v.e] if isinstance(v, Sym) else []):
            fresh_consts(e_, seen)
    for extras, v in raw:
        g = z3.And(*[lift_i(e_) for e_ in extras]) if extras else z3.BoolVal(True)
        outs.append((g, Sym(v.ty, lift_i(v.e)) if isinstance(v, Sym) else v))
    if not outs:
        raise PyvcUnsupported("map over a symbolic sequence: no feasible path through the function")
    if all(isinstance(v, bool) or ty_of(v) is BoolT for _, v in outs):
        body = z3.Or(*[z3.And(g, z3_bool(v) if not isinstance(v, bool) else z3.BoolVal(v)) for g, v in outs])
        # totality: for every index one of the paths through f is taken, with the facts assumed along it (callee
        # postconditions about the per-index results) -- the same assumption symbolic execution makes for one call
        total = z3.ForAll([i], z3.Implies(z3.And(i >= 0, i < n), z3.Or(*[g for g, _ in outs])))
        yield QuantSeq(xs, i, body, None), st.assume(total)
        return
    if len(outs) != 1:
        raise PyvcUnsupported(f"map over a symbolic sequence with a forking non-boolean function at line {where}")
    v = outs[0][1]
    vt = ty_of(v)
    out = z3.Const(fresh_name("mapped"), z3.SeqSort(vt.sort))
    yield Sym(SeqTy(vt), out), st.assume(z3.Length(out) == n, z3.ForAll([i], z3.Implies(z3.And(i >= 0, i < n), out[i] == coerce(v, vt))))


def symbolic_filter(ex, pred, xs, negate, st, where):
    """filter(pred, xs) over a symbolic sequence: an order-preserving subsequence holding exactly the elements
    that satisfy pred (index maps g: result->source strictly increasing, h: source->result)"""
    if pred is None or not (isinstance(xs, Sym) and isinstance(xs.ty, SeqTy)):
        raise PyvcUnsupported("filter over a non-sequence / without predicate")
    et = xs.ty.elem
    n = z3.Length(xs.e)
    r = z3.Const(fresh_name("filtered"), xs.ty.sort)
    m = z3.Length(r)
    i, j = z3.Int(fresh_name("fi")), z3.Int(fresh_name("fj"))
    g = z3.Function(fresh_name("src"), z3.IntSort(), z3.IntSort())
    h = z3.Function(fresh_name("dst"), z3.IntSort(), z3.IntSort())

    def pred_at(elem, st_k):
        outs = list(ex.call_value(pred, [elem], {}, st_k, where))
        if len(outs) != 1 or isinstance(outs[0][0], Raised):
            raise PyvcUnsupported("filter predicate that forks or raises")
        t = z3_truth(outs[0][0])
        return z3.Not(t) if negate else t
    st_i = st.assume(i >= 0, i < m)
    st_j = st.assume(j >= 0, j < n)
    p_r = pred_at(Sym(et, r[i]), st_i)
    p_x = pred_at(Sym(et, xs.e[j]), st_j)
    facts = [m >= 0, m <= n,
             z3.ForAll([i], z3.Implies(z3.And(i >= 0, i < m), z3.And(g(i) >= 0, g(i) < n, r[i] == xs.e[g(i)], p_r, h(g(i)) == i))),
             z3.ForAll([i, j], z3.Implies(z3.And(i >= 0, i < j, j < m), g(i) < g(j))),
             z3.ForAll([j], z3.Implies(z3.And(j >= 0, j < n, p_x), z3.And(h(j) >= 0, h(j) < m, g(h(j)) == j)))]
    xm = z3.Const(fresh_name("xm"), et.sort)
    facts.append(mem_all_indices(r))
    facts.append(z3.ForAll([xm], z3.Implies(seq_mem_z3(r, xm), seq_mem_z3(xs.e, xm))))
    # counting lemma L6 (partition): |filter p xs| + |filter (not p) xs| = |xs|, added when the same predicate
    # object is used both ways on the same sequence (TupleOps.partition)
    reg = ex.__dict__.setdefault("_filter_reg", {})
    k_ = (xs.e.get_id(), id(pred))
    other = reg.get((k_, not negate))
    reg[(k_, negate)] = (xs.e, m)
    if other is not None:
        facts.append(m + other[1] == n)
        ex.iface_used.add("lemma L6: |filter p xs| + |filterfalse p xs| = |xs|")
    yield Sym(xs.ty, r), st.assume(*facts)


def minmax(ex, name, args, kw, st, where):
    key = kw.get("key")
    if len(args) > 1:
        items = list(args)
    else:
        items = ex.iter_items(args[0], st)
    if items is None or key is not None:
        raise PyvcUnsupported(f"{name} over symbolic sequence / with key")
    if not items:
        if "default" in kw:
            yield kw["default"], st
        else:
            yield Raised(ExcVal("ValueError"), where), st
        return
    acc = items[0]
    for x in items[1:]:
        c = v_cmp("<", x, acc) if name == "min" else v_cmp(">", x, acc)
        if isinstance(c, bool):
            acc = x if c else acc
        else:
            acc = v_ite(c, x, acc)
    yield acc, st


class QuantSeq:
    """result of a comprehension over a symbolic sequence whose elements are booleans: usable in any()/all()"""

    def __init__(self, seq, var, body, guard=None):
        self.seq, self.var, self.body, self.guard = seq, var, body, guard

    def quant(self, name):
        i = self.var
        n = z3.Length(self.seq.e)
        rng = z3.And(i >= 0, i < n)
        if self.guard is not None:
            rng = z3.And(rng, self.guard)
        if name == "all":
            return mkbool(z3.ForAll([i], z3.Implies(rng, self.body)))
        return mkbool(z3.Exists([i], z3.And(rng, self.body)))


# ------------------------------------------------------------------ methods on values
def call_method(ex, recv, name, args, kw, st, where):
    from .exec import Report
    # ---- literal / meta values
    if isinstance(recv, str):
        yield Opaque("strmethod"), st
        return
    if type(recv).__name__ == "NameOfV" and name == "lower":
        from .exec import NameOfV
        yield NameOfV(recv.sym, lower=True), st
        return
    if isinstance(recv, DatetimeV):
        if name == "time":
            t = recv.epoch
            if isinstance(t, Sym):
                if not ex.entails(st, v_cmp(">=", t, 0)):
                    raise PyvcUnsupported("utcfromtimestamp of a possibly negative time")
                r = ex.uf_apply("SimTime.time_of_day", [t], IntT)
                kq = ex.uf_apply("SimTime.day_number", [t], IntT)
                yield r, st.assume(r.e >= 0, r.e < 86400, coerce(t, IntT) == 86400 * kq.e + r.e)
            else:
                yield int(t) % 86400, st
            return
        raise PyvcUnsupported(f"datetime method {name}")
    if isinstance(recv, SuccessV):
        if name == "unwrap":
            yield recv.val, st
            return
        if name == "failure":
            yield Raised(ExcVal("UnwrapFailedError"), where), st
            return
    if isinstance(recv, FailureV):
        if name == "failure":
            yield recv.exc, st
            return
        if name == "unwrap":
            yield Raised(ExcVal("UnwrapFailedError"), where), st
            return
    if isinstance(recv, EmptyColl):
        if name == "get":
            yield (args[1] if len(args) > 1 else None), st
            return
        if name in ("union",):
            xs = elems_of(args[0])
            if xs is None:
                yield args[0], st
                return
            r = recv
            for x in xs:
                r = v_set_add(r, x)
            yield r, st
            return
        if name in ("difference", "intersection"):
            yield recv, st
            return
        if name == "set":
            yield v_map_set(recv, args[0], args[1]), st
            return
        if name in ("items", "keys", "values"):
            yield [], st
            return
        if name == "update":
            yield from call_builtin(ex, "Map", [args[0]], {}, st, where, None)
            return
    if isinstance(recv, PyDict):
        if name == "get":
            from .exec import _MISSING
            for val, st2 in ex.pydict_lookup(recv, args[0], st):
                yield ((args[1] if len(args) > 1 else None) if val is _MISSING else val), st2
            return
        if name == "items":
            yield [(k, v) for k, v in recv.items], st
            return
        if name == "keys":
            yield [k for k, _ in recv.items], st
            return
        if name == "values":
            yield [v for _, v in recv.items], st
            return
    if isinstance(recv, (tuple, list)):
        if name == "index" or name == "count":
            raise PyvcUnsupported("tuple.index/count")
    from .exec import PyRecord
    if isinstance(recv, PyRecord) and name == "_replace":
        d = dict(recv.fields)
        d.update(kw)
        yield PyRecord(recv.cname, d), st
        return
    if not isinstance(recv, Sym):
        raise PyvcUnsupported(f"method {name} on {recv!r}")
    t = recv.ty
    # ---- reporter (ghost log)
    if isinstance(t, AbstractTy) and t.base == "Reporter" and name in ("flush", "close", "add_handler"):
        # hands the step's reports to the handlers: no effect on the simulation state (handlers are outside the kernel)
        yield None, st
        return
    if isinstance(t, AbstractTy) and t.base == "Reporter" and name == "file_report":
        r = args[0]
        if not isinstance(r, Report):
            r = Report(None, None, raw=r)
        yield None, st.report(r)
        return
    if name == "_replace":
        yield v_replace(recv, kw), st
        return
    if name == "_asdict":
        yield Opaque("asdict"), st
        return
    if isinstance(t, OptTy):
        st_ok, raises = ex.guard(st, v_not(v_is_none(recv)), "AttributeError", where)
        yield from raises
        if st_ok is not None:
            yield from call_method(ex, v_unwrap(recv), name, args, kw, st_ok, where)
        return
    if isinstance(t, MapTy):
        if name == "get":
            yield v_map_get(recv, args[0], args[1] if len(args) > 1 else None), st
            return
        if name == "set":
            yield v_map_set(recv, args[0], args[1]), st
            return
        if name == "delete":
            st_ok, raises = ex.guard(st, v_contains(recv, args[0]), "KeyError", where)
            yield from raises
            if st_ok is not None:
                yield v_map_delete(recv, args[0]), st_ok
            return
        if name == "update":
            x = args[0]
            if isinstance(x, PyDict):
                r = recv
                for k, v in x.items:
                    r = v_map_set(r, k, v)
                yield r, st
                return
            if isinstance(x, EmptyColl):
                yield recv, st
                return
            if isinstance(x, Sym) and isinstance(x.ty, MapTy):
                k = z3.Const(fresh_name("k"), t.key.sort)
                xe = coerce(x, t) if x.ty.sort == t.sort else None
                if xe is None:
                    raise PyvcUnsupported("Map.update with differently typed map")
                yield Sym(t, z3.Lambda([k], z3.If(t.opt.is_some(z3.Select(xe, k)), z3.Select(xe, k), z3.Select(recv.e, k)))), st
                return
            raise PyvcUnsupported("Map.update arg")
        if name in ("items", "keys", "values"):
            yield MapView(recv, name), st
            return
        if name == "mutate":
            raise PyvcUnsupported("Map.mutate")
    if isinstance(t, SetTy):
        if name in ("union", "difference", "intersection", "issubset"):
            o = args[0]
            xs = elems_of(o)
            if xs is not None:
                r = recv
                if name == "union":
                    for x in xs:
                        r = v_set_add(r, x)
                    yield r, st
                    return
                if name == "difference":
                    for x in xs:
                        r = v_set_remove(r, x)
                    yield r, st
                    return
                o = Sym(t, coerce(list(xs), t)) if xs else Sym(t, t.empty())
            if isinstance(o, EmptyColl):
                o = Sym(t, t.empty())
            if isinstance(o, MapView) and o.kind == "keys":
                kq = z3.Const(fresh_name("k"), t.elem.sort)
                o = Sym(t, z3.Lambda([kq], o.coll.ty.opt.is_some(z3.Select(o.coll.e, kq))))
            if isinstance(o, Sym) and isinstance(o.ty, SetTy):
                k = z3.Const(fresh_name("k"), t.elem.sort)
                a, b = z3.Select(recv.e, k), z3.Select(o.e, k)
                if name == "issubset":
                    yield mkbool(z3.ForAll([k], z3.Implies(a, b))), st
                    return
                body = {"union": z3.Or(a, b), "difference": z3.And(a, z3.Not(b)), "intersection": z3.And(a, b)}[name]
                yield Sym(t, z3.Lambda([k], body)), st
                return
            raise PyvcUnsupported(f"set.{name} arg {o!r}")
    if isinstance(t, ResultTy):
        if name == "unwrap":
            st_ok, raises = ex.guard(st, mkbool(t.is_success(recv.e)), "UnwrapFailedError", where)
            yield from raises
            if st_ok is not None:
                yield Sym(t.elem, t.unwrap(recv.e)), st_ok
            return
        if name == "failure":
            st_ok, raises = ex.guard(st, mkbool(t.is_failure(recv.e)), "UnwrapFailedError", where)
            yield from raises
            if st_ok is not None:
                yield Sym(ExcT, t.fail_val(recv.e)), st_ok
            return
    if t is IntT:
        # SimTime(int) helpers; datetime.time is modelled as seconds of day (assumed: DESIGN §2.4)
        if name == "as_epoch_time":
            yield recv, st
            return
        if name == "as_datetime_time":
            # seconds of day: t = 86400*k + r with 0 <= r < 86400 (linear form of t mod 86400)
            r = ex.uf_apply("SimTime.time_of_day", [recv], IntT)
            kq = ex.uf_apply("SimTime.day_number", [recv], IntT)
            yield r, st.assume(r.e >= 0, r.e < 86400, recv.e == 86400 * kq.e + r.e)
            return
        if name == "as_iso_time":
            yield Opaque("iso"), st
            return
    if t is StrT:
        if name in ("lower", "strip", "upper", "split", "format", "join", "startswith"):
            yield Opaque("strmethod"), st
            return
    if isinstance(t, (AbstractTy, FuncTy)):
        yield from abstract_method(ex, recv, name, args, kw, st, where)
        return
    raise PyvcUnsupported(f"method {name} on {t}")


def abstract_method(ex, recv, name, args, kw, st, where):
    base = recv.ty.base if isinstance(recv.ty, AbstractTy) else recv.ty.name
    ret = None
    params = None
    if base in ex.repo.classes:
        fn, owner = ex.repo.find_method(base, name)
        if fn is not None:
            modp = ex.repo.classes[owner].path
            ret = ex.world.ann_to_ty(fn.returns, modp) if fn.returns is not None else None
            bound = ex.bind_params(fn, recv, args, kw, modp)
            ex.unwrap_opt_args(fn, modp, {}, bound, st, f"{ex.cur_key}.call@{where}.{base}.{name}", f"{base}.{name}")
            params = [p.arg for p in fn.args.args]
            args = [bound[p] for p in params[1:]]
    if ret is None:
        ov = ex.specs.iface_ret(base, name) if ex.specs is not None else None
        if ov is None:
            raise PyvcUnsupported(f"abstract method {base}.{name} without return annotation")
        ret = ov
    elif ex.specs is not None and ex.specs.iface_ret(base, name) is not None:
        ret = ex.specs.iface_ret(base, name)
    ex.iface_used.add(f"{base}.{name}")
    # args must be z3-typed
    zargs = []
    for a in args:
        if isinstance(a, Sym):
            zargs.append(a)
        elif a is None:
            raise PyvcUnsupported(f"None passed to abstract method {base}.{name}")
        elif type(a).__name__ in ("FuncV", "BoundM", "PartialV"):
            # a callable passed to an abstract object: the result is an arbitrary value of the declared type
            from .spec import fresh_value
            yield fresh_value(ret, f"havoc_{base}_{name}"), st
            return
        else:
            zargs.append(lift(a))
    r = ex.uf_apply(f"{base}.{name}", [recv] + zargs, ret)
    st2 = st
    if ex.specs is not None:
        for c in ex.specs.iface_axioms(base, name, recv, zargs, r):
            st2 = st2.assume(c)
    if isinstance(ret, TupleTy):
        r = tuple(Sym(tt, ret.get(r.e, i)) for i, tt in enumerate(ret.elems))
    yield r, st2
