"""F16 (C01): trip_plan_all_requests_allow_pooling does `req_ids, _ = frozenset(zip(*trip_plan))`: the two tuples
(request ids, trip phases) are unpacked in set-iteration order, so which one is taken as the request ids depends on the
hash seed; the validation of a pooling instruction then reports requests as missing (or not) depending on the process."""
import sys, os
sys.path.insert(0, os.path.dirname(__file__))
from _hashseed import outcomes
CODE = r'''
import warnings; warnings.filterwarnings("ignore")
import logging; logging.disable(logging.CRITICAL)
from nrel.hive.resources.mock_lobster import *
from nrel.hive.state.simulation_state import simulation_state_ops as ops
from nrel.hive.model.vehicle.trip_phase import TripPhase
from nrel.hive.dispatcher.instruction.instruction_ops import trip_plan_all_requests_allow_pooling
r1 = mock_request_from_geoids(request_id="r1", origin=somewhere(), destination=somewhere_else(), allows_pooling=True)
r2 = mock_request_from_geoids(request_id="r2", origin=somewhere_else(), destination=somewhere(), allows_pooling=True)
sim = ops.add_entity(ops.add_entity(mock_sim(), r1), r2)
plan = (("r1", TripPhase.PICKUP), ("r2", TripPhase.PICKUP))
print("RESULT", trip_plan_all_requests_allow_pooling(sim, plan))
'''
o = outcomes(CODE, seeds=range(12))
print(o)
print("REPRODUCED: validity of a pooling trip plan depends on the hash seed" if len(set(o.values())) > 1 else "not reproduced")
