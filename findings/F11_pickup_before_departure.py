"""F11 (C19): report_pickup_request reports pickup_time = sim_time - dt although the state it is given has not been
ticked yet: a request admitted and picked up in the same step is reported as picked up *before* its departure time,
and the waiting time wraps around to almost 24 hours (the property bounds it by the cancellation timeout plus one step)."""
import warnings; warnings.filterwarnings("ignore")
import logging; logging.disable(logging.CRITICAL)
from datetime import timedelta
from nrel.hive.resources.mock_lobster import *
from nrel.hive.model.sim_time import SimTime
from nrel.hive.reporting.vehicle_event_ops import report_pickup_request
req = mock_request_from_geoids(origin=somewhere(), destination=somewhere_else(), departure_time=SimTime(80))
v = mock_vehicle_from_geoid(geoid=somewhere())
sim = mock_sim(vehicles=(v,), sim_time=SimTime(90), sim_timestep_duration_seconds=60)   # the step that begins at t=90 admits a request departing at t=80
rep = report_pickup_request(v, req, sim).report
wait = rep["wait_time_seconds"]
print("request_time", int(rep["request_time"]), "pickup_time", int(rep["pickup_time"]), "wait", wait)
timeout = 600
bad = int(rep["pickup_time"]) < int(rep["request_time"]) or wait > timedelta(seconds=timeout + 60)
print("REPRODUCED: pickup reported before the request's departure / waiting time beyond timeout + one step" if bad else "not reproduced")
