"""F8 (C11): ChargingPriceUpdate.update evaluates as_station_updates[s_id] for *every* station id: a price table that
mentions only some stations raises KeyError and aborts the run (the property: `never stopping the run`)."""
import warnings; warnings.filterwarnings("ignore")
import logging; logging.disable(logging.CRITICAL)
from nrel.hive.resources.mock_lobster import *
from nrel.hive.model.sim_time import SimTime
from nrel.hive.util.iterators import DictReaderStepper
from nrel.hive.state.simulation_state.update.charging_price_update import ChargingPriceUpdate
env = mock_env()
s1 = mock_station_from_geoid(station_id="s1", geoid=somewhere())
s2 = mock_station_from_geoid(station_id="s2", geoid=somewhere_else())
sim = mock_sim(stations=(s1, s2), sim_time=SimTime(100))
rows = iter([{"time": "0", "station_id": "s1", "charger_id": "DCFC", "price_kwh": "0.5"}])
upd = ChargingPriceUpdate(DictReaderStepper.from_iterator(rows, "time", parser=SimTime.build), False)
try:
    r, _ = upd.update(sim, env)
    print("ok: s1 DCFC price", r.stations["s1"].get_price("DCFC"), "| s2 DCFC price", r.stations["s2"].get_price("DCFC"))
    print("not reproduced")
except KeyError as e:
    print("KeyError", e)
    print("REPRODUCED: a price table that omits a station stops the run")
