"""F9 (C11): a price entry keyed by a region (h3 cell) *finer* than the search resolution is widened to the enclosing
search cell, so stations outside the named region receive the price."""
import warnings; warnings.filterwarnings("ignore")
import logging; logging.disable(logging.CRITICAL)
import immutables, h3
from nrel.hive.resources.mock_lobster import *
from nrel.hive.model.sim_time import SimTime
from nrel.hive.state.simulation_state.update.charging_price_update import _map_to_station_ids
s1 = mock_station_from_geoid(station_id="s1", geoid=somewhere())
sim0 = mock_sim(stations=(s1,), sim_time=SimTime(100))
sres = sim0.sim_h3_search_resolution
fine = sres + 2
region = h3.h3_to_parent(s1.geoid, fine)
search_cell = h3.h3_to_parent(s1.geoid, sres)
other = next(c for c in sorted(h3.h3_to_children(search_cell, 15)) if h3.h3_to_parent(c, fine) != region)
s3 = mock_station_from_geoid(station_id="s3", geoid=other)
sim = mock_sim(stations=(s1, s3), sim_time=SimTime(100))
m = _map_to_station_ids(immutables.Map({region: immutables.Map({"DCFC": 0.9})}), sim)
inside = h3.h3_to_parent(s3.geoid, fine) == region
print("region", region, "(res", fine, ") encloses s3:", inside, "-> stations that get the price:", sorted(m.keys()))
print("REPRODUCED: a station outside the named region received its price" if ("s3" in m and not inside) else "not reproduced")
