"""F4 (C17): a vehicle that runs out of energy on its way to a request goes OutOfService without DispatchTrip.exit,
so the request keeps naming it as dispatched_vehicle and is hidden from the dispatcher until it times out.
prints REPRODUCED if the request still records the vehicle after the vehicle is OutOfService."""
import warnings; warnings.filterwarnings("ignore")
import logging; logging.disable(logging.CRITICAL)
from nrel.hive.resources.mock_lobster import *
from nrel.hive.state.simulation_state import simulation_state_ops as ops
from nrel.hive.state.simulation_state.update.step_simulation_ops import apply_instructions, perform_vehicle_state_updates
from nrel.hive.dispatcher.instruction.instructions import DispatchTripInstruction

env = mock_env()
v = mock_vehicle_from_geoid(geoid=somewhere(), soc=0.0001)
req = mock_request_from_geoids(origin=somewhere_else(), destination=somewhere())
sim = mock_sim(vehicles=(v,))
sim = ops.add_entity(sim, req)
sim = apply_instructions(sim, env, (DispatchTripInstruction(v.id, req.id),))
print("after instruction:", sim.vehicles[v.id].vehicle_state.__class__.__name__, "record =", sim.requests[req.id].dispatched_vehicle)
for i in range(3):
    sim = perform_vehicle_state_updates(sim, env)
state = sim.vehicles[v.id].vehicle_state.__class__.__name__
rec = sim.requests[req.id].dispatched_vehicle
print("after 3 steps:", state, "record =", rec)
print("REPRODUCED: request still records a vehicle that is out of service" if state == "OutOfService" and rec == v.id else "not reproduced")
