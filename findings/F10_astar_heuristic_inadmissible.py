"""F10 (C14): OSMRoadNetwork's A* heuristic divides the great-circle distance by the *minimum* link speed (so it
over-estimates the remaining time wherever faster links exist) and the node cells it measures between are built with
geo_to_h3(x, y) = (lon, lat) swapped.  An inadmissible heuristic makes A* return routes that are not fastest.
Generated grid graphs with two speed classes; each route is compared with an independent Dijkstra on the same graph."""
import warnings; warnings.filterwarnings("ignore")
import logging; logging.disable(logging.CRITICAL)
import random, networkx as nx, h3
from nrel.hive.model.roadnetwork.osm.osm_roadnetwork import OSMRoadNetwork
from nrel.hive.model.entity_position import EntityPosition

def grid(n, seed):
    rnd = random.Random(seed)
    g = nx.MultiDiGraph()
    lat0, lon0, step = 39.75, -104.99, 0.004
    for i in range(n):
        for j in range(n):
            g.add_node(i * n + j, x=lon0 + j * step, y=lat0 + i * step)
    def link(a, b):
        ya, xa, yb, xb = g.nodes[a]["y"], g.nodes[a]["x"], g.nodes[b]["y"], g.nodes[b]["x"]
        length = h3.point_dist((ya, xa), (yb, xb), unit="m")
        sp = rnd.choice([5.0, 100.0])
        g.add_edge(a, b, length=length, speed_kmph=sp)
        g.add_edge(b, a, length=length, speed_kmph=sp)
    for i in range(n):
        for j in range(n):
            if j + 1 < n: link(i * n + j, i * n + j + 1)
            if i + 1 < n: link(i * n + j, (i + 1) * n + j)
    return g

worse, total, worst = 0, 0, 1.0
for seed in range(5):
    g0 = grid(6, seed)
    ref = nx.MultiDiGraph(g0)     # untouched copy for the reference computation
    for u, v, d in ref.edges(data=True):
        d["t"] = d["length"] / 1000 / d["speed_kmph"] * 3600
    net = OSMRoadNetwork(g0, 15, 40.0)
    rnd = random.Random(100 + seed)
    nodes = list(ref.nodes)
    for _ in range(60):
        a, b = rnd.sample(nodes, 2)
        la = next(iter(net.graph.out_edges(a)))      # a link leaving a / entering b
        lb = next(iter(net.graph.in_edges(b)))
        o_link = net.link_helper.links[f"{la[0]}-{la[1]}"]
        d_link = net.link_helper.links[f"{lb[0]}-{lb[1]}"]
        route = net.route(EntityPosition(o_link.link_id, o_link.start), EntityPosition(d_link.link_id, d_link.end))
        if len(route) < 3:
            continue
        inner = route[1:-1]
        t_route = sum(l.distance_km / l.speed_kmph * 3600 for l in inner)
        t_best = nx.dijkstra_path_length(ref, la[1], lb[0], weight="t")
        total += 1
        if t_route > t_best * (1 + 1e-3) + 1e-3:      # tolerance: node positions are quantised to h3 cells
            worse += 1
            worst = max(worst, t_route / max(t_best, 1e-9))
print(f"{worse} of {total} routes slower than the fastest path (worst x{worst:.1f})")
print("REPRODUCED: routes between the two junctions are not fastest paths" if worse > 0 else "not reproduced")
