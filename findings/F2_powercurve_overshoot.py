"""F2 (C04): TabularPowercurve.charge integrates in whole step_size_seconds: a charge step shorter than (or not a
multiple of) the curve's integration step adds more energy than the plug can deliver in that duration.
prints REPRODUCED if energy gained > power_kw * duration / 3600."""
import warnings; warnings.filterwarnings("ignore")
import logging; logging.disable(logging.CRITICAL)
from nrel.hive.resources.mock_lobster import *
pc = mock_bev().powercurve
bad = False
for dur in (1, 7, 61, 90):
    e, t = pc.charge(start_soc=10.0, full_soc=49.9, power_kw=50.0, duration_seconds=dur)
    limit = 50.0 * dur / 3600
    print(f"duration {dur}s: gained {e - 10.0:.5f} kWh, deliverable {limit:.5f} kWh, reported time {t}")
    if e - 10.0 > limit + 1e-9:
        bad = True
print("REPRODUCED: more energy added than the plug delivers in the step" if bad else "not reproduced")
