"""F12 (C09): apply_instructions records an instruction in applied_instructions before the transition is attempted,
so a rejected instruction still changes the simulation state it returns.
prints REPRODUCED if a rejected instruction leaves the vehicle/stations/bases/requests equal but the state differs."""
import warnings; warnings.filterwarnings("ignore")
import logging; logging.disable(logging.CRITICAL)
from nrel.hive.resources.mock_lobster import *
from nrel.hive.state.simulation_state.update.step_simulation_ops import apply_instructions
from nrel.hive.dispatcher.instruction.instructions import ChargeStationInstruction

env = mock_env()
st = mock_station_from_geoid(geoid=somewhere_else())      # the station is somewhere else: ChargingStation.enter rejects
v = mock_vehicle_from_geoid(geoid=somewhere())
sim = mock_sim(vehicles=(v,), stations=(st,))
sim2 = apply_instructions(sim, env, (ChargeStationInstruction(v.id, st.id, mock_dcfc_charger_id()),))
entities_same = (sim2.vehicles == sim.vehicles and sim2.stations == sim.stations and sim2.bases == sim.bases and sim2.requests == sim.requests)
print("vehicle state:", sim2.vehicles[v.id].vehicle_state.__class__.__name__, "| entities unchanged:", entities_same,
      "| whole state unchanged:", sim2 == sim, "| applied_instructions:", dict(sim2.applied_instructions))
print("REPRODUCED: a rejected instruction changed the simulation state" if entities_same and sim2 != sim else "not reproduced")
