"""F7 (C01): H3Ops.nearest_entity iterates the python set returned by h3.k_ring and keeps the first entity among
equal distances: with two candidates tied in different search cells the result depends on the hash seed."""
import sys, os
sys.path.insert(0, os.path.dirname(__file__))
from _hashseed import outcomes
CODE = r'''
import warnings; warnings.filterwarnings("ignore")
import logging; logging.disable(logging.CRITICAL)
from nrel.hive.resources.mock_lobster import *
from nrel.hive.util.h3_ops import H3Ops
import h3
v = somewhere()
center10 = h3.h3_to_parent(v, 10)
ring = sorted(h3.k_ring(center10, 1) - {center10})
sA = mock_station_from_geoid(station_id="sA", geoid=h3.h3_to_center_child(ring[0], 15))
sB = mock_station_from_geoid(station_id="sB", geoid=h3.h3_to_center_child(ring[3], 15))
sim = mock_sim(stations=(sA, sB))
best = H3Ops.nearest_entity(geoid=v, entities=sim.get_stations(), entity_search=sim.s_search,
                            sim_h3_search_resolution=sim.sim_h3_search_resolution, distance_function=lambda e: 7.0)
print("RESULT", best.id)
'''
o = outcomes(CODE, seeds=range(12))
print(o)
print("REPRODUCED: the nearest entity among ties depends on the hash seed" if len(set(o.values())) > 1 else "not reproduced")
