"""F6 (C01): nearest_shortest_queue_ranking folds over the frozenset station.on_shift_access_chargers with `later wins`
on equal rank: with plug types tied the chosen plug depends on the hash seed. prints REPRODUCED if two seeds disagree."""
import sys, os
sys.path.insert(0, os.path.dirname(__file__))
from _hashseed import outcomes
CODE = r'''
import warnings; warnings.filterwarnings("ignore")
import logging; logging.disable(logging.CRITICAL)
import immutables
from nrel.hive.resources.mock_lobster import *
from nrel.hive.dispatcher.instruction_generator import assignment_ops
env = mock_env()
v = mock_vehicle_from_geoid(geoid=somewhere())
ids = [mock_l2_charger_id(), mock_dcfc_charger_id(), mock_l1_charger_id()]
st = mock_station_from_geoid(geoid=somewhere_else(), chargers=immutables.Map({c: 1 for c in ids}), on_shift_access_chargers=frozenset(ids))
print("RESULT", assignment_ops.nearest_shortest_queue_ranking(v, st, env))
'''
o = outcomes(CODE)
print(o)
print("REPRODUCED: the plug chosen among tied plug types depends on the hash seed" if len(set(o.values())) > 1 else "not reproduced")
