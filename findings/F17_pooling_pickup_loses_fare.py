"""F17 (C05): servicing_ops.complete_trip_phase (pooling pickup) calls pick_up_trip, which credits the fare to the
vehicle inside the returned state, and then writes back a vehicle built from the copy taken BEFORE the pickup: the fare is
lost (the vehicle's balance does not equal the fares of the requests it picked up).
prints REPRODUCED if a pooling pickup leaves the vehicle's balance unchanged although the request carried a fare."""
import warnings; warnings.filterwarnings("ignore")
import logging; logging.disable(logging.CRITICAL)
import immutables
from nrel.hive.resources.mock_lobster import *
from nrel.hive.state.simulation_state import simulation_state_ops as ops
from nrel.hive.state.vehicle_state.servicing_pooling_trip import ServicingPoolingTrip
from nrel.hive.state.vehicle_state.servicing_ops import complete_trip_phase, ActivePoolingTrip
from nrel.hive.model.vehicle.trip_phase import TripPhase
from nrel.hive.model.sim_time import SimTime
from nrel.hive.reporting.reporter import Reporter

env = mock_env().set_reporter(Reporter())
req = mock_request_from_geoids(request_id="r1", origin=somewhere(), destination=somewhere_else(), departure_time=SimTime(0), allows_pooling=True, value=7.5)
v = mock_vehicle_from_geoid(vehicle_id="v1", geoid=somewhere())
state = ServicingPoolingTrip.build("v1", (("r1", TripPhase.PICKUP), ("r1", TripPhase.DROPOFF)), immutables.Map(), immutables.Map(),
                                   ((), mock_route_from_geoids(somewhere(), somewhere_else())), 0)
v = v.modify_vehicle_state(state)
sim = ops.add_entity(mock_sim(vehicles=(v,), sim_time=SimTime(60)), req)
sim = sim._replace(requests=sim.requests.set("r1", sim.requests["r1"].assign_dispatched_vehicle("v1", SimTime(0))))
err, sim2 = complete_trip_phase(sim, env, sim.vehicles["v1"], ActivePoolingTrip("r1", TripPhase.PICKUP, ()))
assert err is None and sim2 is not None, err
before, after, fare = sim.vehicles["v1"].balance, sim2.vehicles["v1"].balance, req.value
print(f"fare of r1 = {fare}; vehicle balance before pickup = {before}, after = {after}; request still waiting: {'r1' in sim2.requests}; "
      f"boarded: {sorted(sim2.vehicles['v1'].vehicle_state.boarded_requests)}")
print("REPRODUCED: the pooling pickup removed the request and boarded it, but the fare was not credited" if fare > 0 and after == before and "r1" not in sim2.requests
      else "not reproduced")
