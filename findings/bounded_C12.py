"""Bounded stand-in for find_assignment (C12): the real function, run natively on EVERY cost table of a small shape.
usage: /venv/bin/python bounded_C12.py <max_dim> <values...>     e.g.  bounded_C12.py 3 0 1 2 3
For each n, m <= max_dim and each n x m table over the given finite cost values: the pairs returned are distinct rows
and distinct columns mapped to the right ids, their number is min(n, m), the reported cost is the sum of the pair
costs, and no injective pairing of that size is cheaper (brute force).  prints REPRODUCED <input> on a failure."""
import sys, itertools, warnings
warnings.filterwarnings("ignore")
from typing import NamedTuple
from nrel.hive.dispatcher.instruction_generator.assignment_ops import find_assignment


class E(NamedTuple):
    id: str
    geoid: str = "x"


def best(table, n, m):
    k = min(n, m)
    b = None
    if n <= m:
        for cols in itertools.permutations(range(m), k):
            c = sum(table[i][cols[i]] for i in range(k))
            b = c if b is None or c < b else b
    else:
        for rows in itertools.permutations(range(n), k):
            c = sum(table[rows[j]][j] for j in range(k))
            b = c if b is None or c < b else b
    return b


def main():
    maxd = int(sys.argv[1])
    vals = [float(v) for v in sys.argv[2:]]
    count = 0
    for n in range(1, maxd + 1):
        for m in range(1, maxd + 1):
            A = tuple(E(f"a{i}") for i in range(n))
            T = tuple(E(f"t{j}") for j in range(m))
            opt_cache = {}
            for flat in itertools.product(vals, repeat=n * m):
                table = [flat[i * m:(i + 1) * m] for i in range(n)]
                cost = {(f"a{i}", f"t{j}"): table[i][j] for i in range(n) for j in range(m)}
                sol = find_assignment(A, T, lambda a, b: cost[(a.id, b.id)])
                count += 1
                pairs = sol.solution
                msg = None
                if len(pairs) != min(n, m):
                    msg = f"{len(pairs)} pairs, expected {min(n, m)}"
                elif len({p[0] for p in pairs}) != len(pairs) or len({p[1] for p in pairs}) != len(pairs):
                    msg = f"pairs not one-to-one: {pairs}"
                elif any(p not in cost for p in pairs):
                    msg = f"pair of unknown ids: {pairs}"
                else:
                    total = sum(cost[p] for p in pairs)
                    b = best(table, n, m)
                    if total > b + 1e-9:
                        msg = f"pairing {pairs} costs {total} but a pairing of cost {b} exists"
                    elif abs(sol.solution_cost - total) > 1e-9:
                        msg = f"solution_cost {sol.solution_cost} != sum of the pair costs {total}"
                if msg:
                    print(f"find_assignment on the {n}x{m} cost table {table}")
                    print("REPRODUCED", msg)
                    return 1
    print(f"not reproduced: {count} cost tables, all shapes up to {maxd}x{maxd}, cost values {vals}")
    return 0


if __name__ == "__main__":
    sys.exit(main())
