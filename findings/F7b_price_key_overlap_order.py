"""F7b (C01/C11): _map_to_station_ids iterates the keys of an immutables.Map and overwrites: when a station is named both
by id and by an enclosing region (or by two regions) the price it gets depends on the hash seed."""
import sys, os
sys.path.insert(0, os.path.dirname(__file__))
from _hashseed import outcomes
CODE = r'''
import warnings; warnings.filterwarnings("ignore")
import logging; logging.disable(logging.CRITICAL)
import immutables, h3
from nrel.hive.resources.mock_lobster import *
from nrel.hive.model.sim_time import SimTime
from nrel.hive.state.simulation_state.update.charging_price_update import _map_to_station_ids
s1 = mock_station_from_geoid(station_id="s1", geoid=somewhere())
sim = mock_sim(stations=(s1,), sim_time=SimTime(100))
region = h3.h3_to_parent(s1.geoid, sim.sim_h3_search_resolution)
m = _map_to_station_ids(immutables.Map({"s1": immutables.Map({"DCFC": 0.1}), region: immutables.Map({"DCFC": 0.9})}), sim)
print("RESULT", m["s1"]["DCFC"])
'''
o = outcomes(CODE, seeds=range(12))
print(o)
print("REPRODUCED: the price a station named twice receives depends on the hash seed" if len(set(o.values())) > 1 else "not reproduced")
