"""F5 (C01): Dispatcher.generate_instructions folds over the frozenset env.fleet_ids; with a vehicle in several fleets the
winning DispatchTripInstruction depends on the interpreter's hash seed. prints REPRODUCED if two seeds disagree."""
import sys, os
sys.path.insert(0, os.path.dirname(__file__))
from _hashseed import outcomes
CODE = r'''
import warnings; warnings.filterwarnings("ignore")
import logging; logging.disable(logging.CRITICAL)
from nrel.hive.resources.mock_lobster import *
from nrel.hive.state.simulation_state import simulation_state_ops as ops
from nrel.hive.dispatcher.instruction_generator.dispatcher import Dispatcher
from nrel.hive.dispatcher.instruction_generator.instruction_generator_ops import generate_instructions
fleets = ["fleet_%d" % i for i in range(6)]
env = mock_env(fleet_ids=frozenset(fleets))
v = mock_vehicle_from_geoid(geoid=somewhere()).set_membership(tuple(fleets))
reqs = [mock_request_from_geoids(request_id="r%d" % i, origin=somewhere_else(), destination=somewhere(), fleet_id=f) for i, f in enumerate(fleets)]
sim = mock_sim(vehicles=(v,))
for r in reqs: sim = ops.add_entity(sim, r)
res = generate_instructions((Dispatcher(env.config.dispatcher),), sim, env)
print("RESULT", res.instruction_stack[v.id][0].request_id)
'''
o = outcomes(CODE)
print(o)
print("REPRODUCED: the instruction that takes effect depends on the hash seed" if len(set(o.values())) > 1 else "not reproduced")
