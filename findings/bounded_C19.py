"""Bounded stand-in for the stateful report handlers (C19): the real StatsHandler and EventfulHandler, run natively on
seeded random batches of reports.  Not a proof: handlers are mutable objects writing files, outside the verifier's reach.
usage: /venv/bin/python bounded_C19.py <seed> <runs>
Checks per run (several flushes): summary request / cancellation counts = number of add / cancel events; distance per
activity = sum of the move events; every non-instruction report whose type is logged appears exactly once in event.log, as a
json record that parses back to the same fields; one station-load record per station and flush, equal to the sum of that
flush's charge events.  prints REPRODUCED <what> on a failure."""
import sys, json, random, tempfile, warnings, logging, collections
from pathlib import Path
warnings.filterwarnings("ignore")
logging.disable(logging.CRITICAL)
from nrel.hive.resources.mock_lobster import *
from nrel.hive.reporting.reporter import Report
from nrel.hive.reporting.report_type import ReportType
from nrel.hive.reporting.handler.stats_handler import StatsHandler
from nrel.hive.reporting.handler.eventful_handler import EventfulHandler
from nrel.hive.runner.runner_payload import RunnerPayload
from nrel.hive.model.sim_time import SimTime


def one_run(seed):
    rnd = random.Random(seed)
    env = mock_env()
    stations = tuple(mock_station_from_geoid(station_id=f"s{i}") for i in range(3))
    sim = mock_sim(stations=stations, vehicles=(mock_vehicle_from_geoid(vehicle_id="v0"),), sim_time=SimTime(600), sim_timestep_duration_seconds=60)
    rp = RunnerPayload(sim, env, mock_update())
    cfg = env.config.global_config
    logged = set(cfg.log_sim_config)
    with tempfile.TemporaryDirectory() as d:
        sh, eh = StatsHandler(), EventfulHandler(cfg, Path(d))
        want_add = want_cancel = 0
        want_vkt = collections.Counter()
        want_lines = collections.Counter()
        want_load = []
        for flush in range(rnd.randint(1, 4)):
            reports, load = [], {s.id: 0.0 for s in stations}
            for _ in range(rnd.randint(0, 8)):
                k = rnd.choice(["add", "cancel", "move", "charge", "instr", "pickup"])
                if k == "add":
                    r = Report(ReportType.ADD_REQUEST_EVENT, {"request_id": f"r{rnd.randint(0, 99)}"}); want_add += 1
                elif k == "cancel":
                    r = Report(ReportType.CANCEL_REQUEST_EVENT, {"request_id": f"r{rnd.randint(0, 99)}"}); want_cancel += 1
                elif k == "move":
                    st_, dist = rnd.choice(["Repositioning", "DispatchTrip", "ServicingTrip"]), rnd.choice([0.25, 1.5, 3.0])
                    r = Report(ReportType.VEHICLE_MOVE_EVENT, {"vehicle_id": "v0", "vehicle_state": st_, "distance_km": dist}); want_vkt[st_] += dist
                elif k == "charge":
                    sid, e = rnd.choice(sorted(load)), rnd.choice([0.125, 0.5, 2.0])
                    r = Report(ReportType.VEHICLE_CHARGE_EVENT, {"vehicle_id": "v0", "station_id": sid, "energy": e, "energy_units": "kwh"}); load[sid] += e
                elif k == "instr":
                    r = Report(ReportType.INSTRUCTION, {"vehicle_id": "v0"})
                else:
                    r = Report(ReportType.PICKUP_REQUEST_EVENT, {"vehicle_id": "v0", "request_id": f"r{rnd.randint(0, 99)}"})
                reports.append(r)
                if r.report_type != ReportType.INSTRUCTION and r.report_type in logged:
                    want_lines[json.dumps(r.as_json(), sort_keys=True, default=str)] += 1
            want_load.append(load)
            sh.handle(list(reports), rp)
            eh.handle(list(reports), rp)
        eh.close(rp)
        if sh.stats.requests != want_add or sh.stats.cancelled_requests != want_cancel:
            return f"summary counts requests={sh.stats.requests} cancelled={sh.stats.cancelled_requests}, events add={want_add} cancel={want_cancel}"
        for st_, dist in want_vkt.items():
            if abs(sh.stats.vkt[st_] - dist) > 1e-9:
                return f"summary distance in {st_} = {sh.stats.vkt[st_]}, move events sum to {dist}"
        got_lines, got_load = collections.Counter(), []
        for line in (Path(d) / "event.log").read_text().splitlines():
            try:
                rec = json.loads(line)
            except ValueError:
                return f"event.log holds a line that does not parse back as a json record: {line[:80]!r}"
            if rec.get("report_type") == "station_load_event":
                got_load.append((rec["station_id"], float(rec["energy"])))
            else:
                got_lines[json.dumps(rec, sort_keys=True)] += 1
        if got_lines != want_lines:
            return f"event.log records differ from the filed reports: missing {list((want_lines - got_lines).items())[:2]} extra {list((got_lines - want_lines).items())[:2]}"
        if ReportType.STATION_LOAD_EVENT in logged:
            flat = sorted((sid, round(e, 9)) for load in want_load for sid, e in load.items())
            if sorted((s_, round(e, 9)) for s_, e in got_load) != flat:
                return f"station load records {sorted(got_load)[:4]} != sums of charge events {flat[:4]}"
    return None


def main():
    seed, runs = int(sys.argv[1]), int(sys.argv[2])
    for k in range(runs):
        msg = one_run(seed * 100003 + k)
        if msg:
            print(f"handlers on a random batch of reports, seed {seed * 100003 + k}")
            print("REPRODUCED", msg)
            return 1
    print(f"not reproduced: {runs} runs of 1-4 flushes of 0-8 reports")
    return 0


if __name__ == "__main__":
    sys.exit(main())
