"""helper: run a snippet under several PYTHONHASHSEED values in fresh processes and collect its printed result"""
import subprocess, sys, os


def outcomes(code, seeds=range(8)):
    res = {}
    for s in seeds:
        env = dict(os.environ, PYTHONHASHSEED=str(s))
        p = subprocess.run([sys.executable, "-c", code], capture_output=True, text=True, env=env)
        out = [l for l in p.stdout.strip().splitlines() if l.startswith("RESULT")]
        res[s] = out[-1] if out else "ERROR " + p.stderr[-200:]
    return res
