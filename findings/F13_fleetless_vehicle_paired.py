"""F13 (C10, known finding, not repaired): with fleets configured, a vehicle listed in no fleet has an empty (public)
membership; Membership.grant_access_to_membership_id treats `public` as access to every fleet, so the built-in Dispatcher
offers it to fleet requests; DispatchTrip.enter then rejects the pairing (the request's membership does not grant access
to a public vehicle), every step, until the request times out."""
import warnings; warnings.filterwarnings("ignore")
import logging; logging.disable(logging.CRITICAL)
from nrel.hive.resources.mock_lobster import *
from nrel.hive.state.simulation_state import simulation_state_ops as ops
from nrel.hive.dispatcher.instruction_generator.dispatcher import Dispatcher
from nrel.hive.state.simulation_state.update.step_simulation_ops import apply_instructions
env = mock_env(fleet_ids=frozenset(["fleet_a"]))
v = mock_vehicle_from_geoid(geoid=somewhere())                       # in no fleet
r = mock_request_from_geoids(origin=somewhere_else(), destination=somewhere(), fleet_id="fleet_a")
sim = ops.add_entity(mock_sim(vehicles=(v,)), r)
_, instructions = Dispatcher(env.config.dispatcher).generate_instructions(sim, env)
paired = [(i.vehicle_id, i.request_id) for i in instructions]
sim2 = apply_instructions(sim, env, instructions)
state = sim2.vehicles[v.id].vehicle_state.__class__.__name__
grants = r.membership.grant_access_to_membership(v.membership)
print("pairs:", paired, "| request grants access to the vehicle:", grants, "| vehicle state after applying:", state)
print("REPRODUCED: dispatcher paired a vehicle with a request of a fleet it does not belong to" if paired and not grants else "not reproduced")
