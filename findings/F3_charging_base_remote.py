"""F3 (C07): ChargingBase.enter accepts a vehicle that is not at the base's location.
Replay through the public API: apply a ChargeBaseInstruction for a base in another cell.
prints REPRODUCED if the vehicle ends up ChargingBase while not co-located with the base."""
import warnings; warnings.filterwarnings("ignore")
import logging; logging.disable(logging.CRITICAL)
from nrel.hive.resources.mock_lobster import *
from nrel.hive.state.simulation_state.update.step_simulation_ops import apply_instructions
from nrel.hive.dispatcher.instruction.instructions import ChargeBaseInstruction

env = mock_env()
st = mock_station_from_geoid(geoid=somewhere_else())
b = mock_base_from_geoid(geoid=somewhere_else(), station_id=st.id)
v = mock_vehicle_from_geoid(geoid=somewhere(), soc=0.5)
sim = mock_sim(vehicles=(v,), stations=(st,), bases=(b,))
sim2 = apply_instructions(sim, env, (ChargeBaseInstruction(v.id, b.id, mock_dcfc_charger_id()),))
vv = sim2.vehicles[v.id]
state = vv.vehicle_state.__class__.__name__
print("state after instruction:", state, "vehicle cell", vv.geoid, "base cell", sim2.bases[b.id].geoid)
if state == "ChargingBase" and vv.geoid != sim2.bases[b.id].geoid:
    print("REPRODUCED: vehicle charges at a base it is not located at")
else:
    print("not reproduced")
