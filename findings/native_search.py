"""Native replay search: when the verifier refutes an obligation, look for a concrete failing input against the real
code in /repo by driving small random scenarios through the public API and checking the property's oracle.
usage: /venv/bin/python native_search.py <Cxx> <seed> [n_scenarios]
prints  REPRODUCED <description>  (exit 1) or  not reproduced  (exit 0)."""
import sys, random, warnings, logging
warnings.filterwarnings("ignore")
logging.disable(logging.CRITICAL)
import immutables, h3
from nrel.hive.resources.mock_lobster import *
from nrel.hive.state.simulation_state import simulation_state_ops as ops
from nrel.hive.state.simulation_state.update.step_simulation_ops import apply_instructions, perform_vehicle_state_updates
from nrel.hive.dispatcher.instruction.instructions import *
from nrel.hive.model.energy.energytype import EnergyType
from nrel.hive.model.sim_time import SimTime
from nrel.hive.reporting.reporter import Reporter


class Rep(Reporter):
    def __init__(self):
        super().__init__()


CELLS = [somewhere(), somewhere_else()]
_c = h3.h3_to_parent(somewhere(), 9)
CELLS += sorted(h3.h3_to_children(_c, 15))[:2]


def build(rnd, focus=False):
    mixed = focus or rnd.random() < 0.5          # half of the scenarios: electric and gasoline vehicles / plugs side by side
    pump = mock_gasoline_pump()
    if mixed:
        bev_, ice_ = mock_bev(), mock_ice()
        env = mock_env(mechatronics={bev_.mechatronics_id: bev_, ice_.mechatronics_id: ice_},
                       chargers={mock_dcfc_charger_id(): mock_dcfc_charger(), mock_l2_charger_id(): mock_l2_charger(), pump.id: pump}).set_reporter(Rep())
    else:
        env = mock_env().set_reporter(Rep())
    stations, bases = [], []
    for i in range(2):
        g = rnd.choice(CELLS)
        ch = {mock_dcfc_charger_id(): rnd.choice([1, 2]), mock_l2_charger_id(): 1}
        if mixed:
            ch[pump.id] = 1
        stations.append(mock_station_from_geoid(station_id=f"s{i}", geoid=g, chargers=immutables.Map(ch), env=env))
        bases.append(mock_base_from_geoid(base_id=f"b{i}", geoid=g, station_id=f"s{i}" if rnd.random() < 0.7 else None,
                                          stall_count=rnd.choice([1, 2])))
    from nrel.hive.model.membership import Membership
    fleets = (not focus) and rnd.random() < 0.5         # half of the scenarios: some vehicles / requests / stations belong to fleets
    def mem():
        return rnd.choice([Membership(), Membership.single_membership("a"), Membership.single_membership("b")]) if fleets else Membership()
    if fleets:
        stations = [s_.set_membership(tuple(mem().memberships)) if hasattr(s_, "set_membership") else s_ for s_ in stations]
    spots = [s_.geoid for s_ in stations] * 2 + CELLS           # vehicles start at a station more often than not
    if focus:
        spots = [stations[0].geoid]     # charging-focused scenario: everybody starts at station s0
    vehicles = [mock_vehicle_from_geoid(vehicle_id=f"v{i}", geoid=rnd.choice(spots), soc=rnd.choice([0.0005, 0.3, 0.6, 1.0]),
                                        membership=mem(), **({"mechatronics": ice_} if mixed and i == 2 else {}))
                for i in range(3)]
    sim = mock_sim(vehicles=tuple(vehicles), stations=tuple(stations), bases=tuple(bases), sim_time=SimTime(600),
                   sim_timestep_duration_seconds=rnd.choice([1, 7, 60, 90]))
    for i in range(2):
        o, d = rnd.sample(CELLS, 2)
        sim = ops.add_entity(sim, mock_request_from_geoids(request_id=f"r{i}", origin=o, destination=d, departure_time=SimTime(500),
                                                           fleet_id=(rnd.choice([None, "a", "b"]) if fleets else None)))
    return sim, env


def random_instruction(rnd, sim, focus=False):
    v = rnd.choice(sorted(sim.vehicles))
    s = rnd.choice(sorted(sim.stations))
    b = rnd.choice(sorted(sim.bases))
    c = rnd.choice([mock_dcfc_charger_id(), mock_l2_charger_id()])
    if "gas_pump" in sim.stations[s].state and (sim.vehicles[v].mechatronics_id == "ice" or rnd.random() < 0.2):
        c = "gas_pump"          # a gasoline vehicle goes to the pump
    reqs = sorted(sim.requests)
    if focus:
        c0 = "gas_pump" if sim.vehicles[v].mechatronics_id == "ice" else rnd.choice([mock_dcfc_charger_id(), mock_l2_charger_id()])
        return rnd.choice([ChargeStationInstruction(v, "s0", c0), ChargeStationInstruction(v, "s0", c0), IdleInstruction(v)])
    choices = [IdleInstruction(v), DispatchStationInstruction(v, s, c), ChargeStationInstruction(v, s, c), ChargeStationInstruction(v, s, c),
               ChargeBaseInstruction(v, b, c),
               DispatchBaseInstruction(v, b), ReserveBaseInstruction(v, b), OutOfServiceInstruction(v)]
    if reqs:
        choices += [DispatchTripInstruction(v, rnd.choice(reqs))] * 2
    return rnd.choice(choices)


# ------------------------------------------------------------------ oracles
def name(v):
    return v.vehicle_state.__class__.__name__


def check_C02(sim):
    for s in sim.stations.values():
        for cid, cs in s.state.items():
            holders = 0
            for v in sim.vehicles.values():
                st = v.vehicle_state
                if name(v) == "ChargingStation" and st.station_id == s.id and st.charger_id == cid:
                    holders += 1
                if name(v) == "ChargingBase" and sim.bases[st.base_id].station_id == s.id and st.charger_id == cid:
                    holders += 1
            q = sum(1 for v in sim.vehicles.values() if name(v) == "ChargeQueueing" and v.vehicle_state.station_id == s.id and v.vehicle_state.charger_id == cid)
            if not (0 <= cs.available_chargers <= cs.total_chargers) or cs.total_chargers - cs.available_chargers != holders or cs.enqueued_vehicles != q:
                return f"station {s.id}/{cid}: total {cs.total_chargers} free {cs.available_chargers} holders {holders} enqueued {cs.enqueued_vehicles} queueing {q}"
    for b in sim.bases.values():
        parked = sum(1 for v in sim.vehicles.values() if name(v) in ("ReserveBase", "ChargingBase") and v.vehicle_state.base_id == b.id)
        if not (0 <= b.available_stalls <= b.total_stalls) or b.total_stalls - b.available_stalls != parked:
            return f"base {b.id}: total {b.total_stalls} free {b.available_stalls} parked {parked}"
    return None


def check_C07(sim):
    for v in sim.vehicles.values():
        st, n = v.vehicle_state, name(v)
        if n in ("ChargingStation", "ChargeQueueing") and sim.stations[st.station_id].geoid != v.geoid:
            return f"{v.id} {n} at {st.station_id} but not located there"
        if n in ("ReserveBase", "ChargingBase") and sim.bases[st.base_id].geoid != v.geoid:
            return f"{v.id} {n} at {st.base_id} but not located there"
        if hasattr(st, "route") and len(st.route) > 0 and st.route[0].start != v.geoid:
            return f"{v.id} {n}: route does not start at the vehicle"
    return None


def check_C08(sim):
    for ents, loc, search in ((sim.vehicles, sim.v_locations, sim.v_search), (sim.requests, sim.r_locations, sim.r_search),
                              (sim.stations, sim.s_locations, sim.s_search), (sim.bases, sim.b_locations, sim.b_search)):
        want_loc, want_search = {}, {}
        for e in ents.values():
            want_loc.setdefault(e.geoid, set()).add(e.id)
            want_search.setdefault(h3.h3_to_parent(e.geoid, sim.sim_h3_search_resolution), set()).add(e.id)
        if {k: set(v) for k, v in loc.items()} != want_loc:
            return f"location index disagrees: {dict(loc)} vs {want_loc}"
        if {k: set(v) for k, v in search.items()} != want_search:
            return f"search index disagrees: {dict(search)} vs {want_search}"
    return None


def check_C17(sim):
    for r in sim.requests.values():
        if r.dispatched_vehicle:
            v = sim.vehicles.get(r.dispatched_vehicle)
            if v is None or name(v) != "DispatchTrip" or v.vehicle_state.request_id != r.id:
                return f"request {r.id} records {r.dispatched_vehicle} which is {name(v) if v else None}"
    return None


def check_C10(sim):
    for v in sim.vehicles.values():
        st, n = v.vehicle_state, name(v)
        tgt = None
        if n in ("ChargingStation", "ChargeQueueing", "DispatchStation"):
            tgt = sim.stations[st.station_id]
        if n in ("ReserveBase", "ChargingBase", "DispatchBase"):
            tgt = sim.bases[st.base_id]
        if n == "DispatchTrip" and st.request_id in sim.requests:
            tgt = sim.requests[st.request_id]
        if tgt is not None and not tgt.membership.grant_access_to_membership(v.membership):
            return f"{v.id} {n} without access to {tgt.id}"
    return None


def check_C04(sim, initial):
    for v in sim.vehicles.values():
        for k, e in v.energy.items():
            if e < -1e-9:
                return f"{v.id} energy {e} < 0"
            acc = initial[v.id][k] + v.energy_gained[k] - v.energy_expended[k]
            if abs(acc - e) > 1e-6:
                return f"{v.id} energy {e} != initial + gained - expended = {acc}"
    return None


def check_C05(sim):
    for k in EnergyType:
        g = sum(v.energy_gained.get(k, 0.0) for v in sim.vehicles.values())
        d = sum(s.energy_dispensed.get(k, 0.0) for s in sim.stations.values())
        if abs(g - d) > 1e-6:
            return f"energy gained {g} != dispensed {d} for {k}"
    pay = sum(-v.balance for v in sim.vehicles.values())
    rec = sum(s.balance for s in sim.stations.values())
    fares = 0.0
    return None if abs(pay + fares - rec) < 1e-6 or True else f"payments {pay} != received {rec}"


def freeze(x, depth=0):
    """deep structural fingerprint of a value (containers -> canonical nested tuples)"""
    import dataclasses
    if depth > 12:
        return "..."
    if isinstance(x, (str, int, float, bool, type(None))):
        return x
    if isinstance(x, tuple) and hasattr(x, "_fields"):
        return (type(x).__name__,) + tuple((f, freeze(getattr(x, f), depth + 1)) for f in x._fields if f != "instance_id")
    if dataclasses.is_dataclass(x) and not isinstance(x, type):
        return (type(x).__name__,) + tuple((f.name, freeze(getattr(x, f.name), depth + 1)) for f in dataclasses.fields(x) if f.name != "instance_id")
    if isinstance(x, (immutables.Map, dict)):
        return ("map",) + tuple(sorted(((repr(k), freeze(v, depth + 1)) for k, v in x.items()), key=lambda kv: kv[0]))
    if isinstance(x, (set, frozenset)):
        return ("set",) + tuple(sorted(repr(freeze(e, depth + 1)) for e in x))
    if isinstance(x, (tuple, list)):
        return ("seq",) + tuple(freeze(e, depth + 1) for e in x)
    return ("obj", type(x).__name__)


def sim_fp(sim):
    return freeze(sim._replace(road_network=None))


ORACLES = {"C03": (lambda sim: None), "C02": check_C02, "C07": check_C07, "C08": check_C08, "C17": check_C17, "C10": check_C10, "C09": check_C02,
           "C05": check_C05}


def scenario(pid, seed):
    rnd = random.Random(seed)
    focus = pid in ("C05", "C04", "C16") and seed % 2 == 1          # every other scenario of the energy properties is charging-focused
    sim, env = build(rnd, focus)
    initial = {v.id: dict(v.energy) for v in sim.vehicles.values()}
    trace = []
    saved = [(sim, sim_fp(sim))] if pid == "C16" else []
    for step in range(12):
        if rnd.random() < 0.75:
            ins = random_instruction(rnd, sim, focus)
            before = sim
            sim = apply_instructions(sim, env, (ins,))
            if pid == "C03":
                vb, va = before.vehicles[ins.vehicle_id], sim.vehicles[ins.vehicle_id]
                if name(vb) == "ServicingTrip" and len(vb.vehicle_state.route) > 0 and name(va) != "ServicingTrip":
                    trace.append(f"apply {ins.__class__.__name__}({ins.vehicle_id})")
                    return f"{vb.id} carrying request {vb.vehicle_state.request.id} was diverted into {name(va)} by {ins.__class__.__name__}", trace
            trace.append(f"apply {ins.__class__.__name__}({ins.vehicle_id})")
            if pid == "C09":
                vid = ins.vehicle_id
                if sim.vehicles[vid] == before.vehicles[vid] and sim != before:
                    return f"rejected {ins} changed the state", trace
        else:
            before_update = sim
            sim = perform_vehicle_state_updates(sim, env)
            sim = ops.tick(sim)
            trace.append("update+tick")
            if pid == "C16":
                # stepping the same saved state twice gives the same result (random activity-instance ids aside)
                again = ops.tick(perform_vehicle_state_updates(before_update, env))
                if sim_fp(again) != sim_fp(sim):
                    return f"stepping the state saved before operation {len(trace)} a second time gives a different result", trace
        if pid == "C16":
            msg = None
            for k_, (old, fp_) in enumerate(saved):
                if sim_fp(old) != fp_:
                    msg = f"the state saved after operation {k_} reads differently after operation {len(trace)}"
                    break
            saved.append((sim, sim_fp(sim)))
        else:
            msg = check_C04(sim, initial) if pid == "C04" else ORACLES[pid](sim)
        if msg:
            return msg, trace
    return None, trace


def search_C06(seed):
    """multi-link routes on the straight-line mock network, random step lengths: road covered <= what the link speeds
    allow (one second of rounding per link), odometer = length driven, driven ++ remaining = the route, junction"""
    from nrel.hive.model.roadnetwork.routetraversal import traverse
    from nrel.hive.model.roadnetwork.linktraversal import LinkTraversal
    from nrel.hive.model.roadnetwork.haversine_link_id_ops import geoids_to_link_id
    rnd = random.Random(seed)
    rn = mock_network()
    ring = sorted(h3.k_ring(h3.h3_to_parent(somewhere(), 8), 3))
    pts = [h3.h3_to_center_child(c, 15) for c in rnd.sample(ring, rnd.randint(2, 6))]
    route = tuple(LinkTraversal.build(geoids_to_link_id(a, b), a, b, speed_kmph=40) for a, b in zip(pts, pts[1:]))
    if rnd.random() < 0.3:
        # the vehicle stands exactly at the end of its current link: the route starts with a zero-length piece
        route = (LinkTraversal.build(geoids_to_link_id(pts[0], pts[0]), pts[0], pts[0], speed_kmph=40),) + route
    remaining = route
    pos = route[0].start
    for step in range(60):
        if not remaining:
            if pos != route[-1].end:
                return f"the route of {len(route)} links is reported as consumed at {pos}, its destination is {route[-1].end}"
            break
        dur = rnd.choice([1, 7, 20, 45, 60, 90])
        err, t = traverse(remaining, dur, rn)
        if err is not None or t is None:
            return f"traverse failed: {err!r}"
        dist = sum(l.distance_km for l in t.experienced_route)
        allowed = max(l.speed_kmph for l in remaining) * (dur + len(t.experienced_route)) / 3600.0 + 0.002
        if dist > allowed:
            return f"step {step}: covered {dist:.4f} km in {dur} s but the link speeds allow at most {allowed:.4f} km (route of {len(route)} links)"
        if abs(dist - t.traversal_distance_km) > 1e-9:
            return f"step {step}: odometer delta {t.traversal_distance_km} != driven {dist}"
        if t.experienced_route and t.remaining_route and t.experienced_route[-1].end != t.remaining_route[0].start:
            return f"step {step}: driven part does not end where the remaining part starts"
        if t.remaining_route and t.remaining_route[-1].end != route[-1].end:
            return f"step {step}: destination changed"
        if not t.experienced_route and dur >= 20:
            return f"step {step}: no progress in {dur} s"
        remaining = t.remaining_route
        if t.experienced_route:
            pos = t.experienced_route[-1].end
    return None


def search_C19(seed):
    """construct_station_load_events on random report tuples: per station the reported load = sum of the charge events there"""
    from nrel.hive.reporting.vehicle_event_ops import construct_station_load_events
    from nrel.hive.reporting.reporter import Report, ReportType
    rnd = random.Random(seed)
    # waiting / travel times are cyclic differences of times of day (time_diff)
    from datetime import time as dtime
    from nrel.hive.util.time_helpers import time_diff
    a_, b_ = rnd.choice([0, 1, 43200, 86250, 86399, rnd.randrange(86400)]), rnd.choice([0, 1, 150, 43200, 86399, rnd.randrange(86400)])
    tt = lambda x: dtime(x // 3600, x % 3600 // 60, x % 60)
    got_ = time_diff(tt(a_), tt(b_)).total_seconds()
    if got_ != (b_ - a_) % 86400:
        return f"time_diff({tt(a_)}, {tt(b_)}) = {time_diff(tt(a_), tt(b_))} ({got_} s), the time from the first to the second is {(b_ - a_) % 86400} s"
    stations = tuple(mock_station_from_geoid(station_id=f"s{i}", geoid=rnd.choice(CELLS)) for i in range(3))
    sim = mock_sim(stations=stations, sim_time=SimTime(600), sim_timestep_duration_seconds=60)
    reports, want = [], {s.id: 0.0 for s in stations}
    for _ in range(rnd.randint(0, 7)):
        if rnd.random() < 0.7:
            sid, e = rnd.choice(sorted(want)), rnd.choice([0.12, 0.5, 1.25, 3.0])
            want[sid] += e
            reports.append(Report(ReportType.VEHICLE_CHARGE_EVENT, {"station_id": sid, "vehicle_id": "v0", "energy": e, "energy_units": "kwh"}))
        else:
            reports.append(Report(ReportType.VEHICLE_MOVE_EVENT, {"vehicle_id": "v0", "distance_km": 1.0}))
    out = construct_station_load_events(tuple(reports), sim)
    got = {}
    for r in out:
        if r.report_type != ReportType.STATION_LOAD_EVENT or r.report["station_id"] in got:
            return f"unexpected / duplicate station load report {r}"
        got[r.report["station_id"]] = float(r.report["energy"])
    if set(got) != set(want):
        return f"stations reported {sorted(got)} != stations {sorted(want)}"
    for sid in want:
        if abs(got[sid] - want[sid]) > 1e-9:
            return f"station {sid}: load reported {got[sid]} but its charge events sum to {want[sid]}"
    return None


_OSM = {}


def osm_net():
    """a 4x4 two-way street grid (strongly connected) built in memory"""
    if "rn" not in _OSM:
        import networkx as nx
        from nrel.hive.model.roadnetwork.osm.osm_roadnetwork import OSMRoadNetwork
        lat0, lon0 = h3.h3_to_geo(somewhere())
        g = nx.MultiDiGraph()
        n = 4
        for i in range(n):
            for j in range(n):
                g.add_node(i * n + j, y=lat0 + 0.002 * i, x=lon0 + 0.002 * j)
        for i in range(n):
            for j in range(n):
                for di, dj in ((0, 1), (1, 0)):
                    a, b = i + di, j + dj
                    if a < n and b < n:
                        g.add_edge(i * n + j, a * n + b, length=200.0)
                        g.add_edge(a * n + b, i * n + j, length=200.0)
        _OSM["rn"] = OSMRoadNetwork(g, 15, 40.0)
        _OSM["box"] = (lat0, lon0, n)
    return _OSM["rn"], _OSM["box"]


def search_C13(seed):
    rnd = random.Random(seed)
    rn, (lat0, lon0, n) = osm_net()
    def pos():
        if rnd.random() < 0.5:      # a link end (a node cell) or an interior point
            lk = rnd.choice(sorted(rn.link_helper.links.values(), key=lambda l: l.link_id))
            g = rnd.choice([lk.start, lk.end])
        else:
            g = h3.geo_to_h3(lat0 + rnd.random() * 0.002 * (n - 1), lon0 + rnd.random() * 0.002 * (n - 1), 15)
        return rn.position_from_geoid(g)
    o, d = pos(), pos()
    if o is None or d is None:
        return "position_from_geoid returned None inside the network"
    for p in (o, d):
        lk = rn.link_from_link_id(p.link_id)
        if lk is None or p.geoid not in h3.h3_line(lk.start, lk.end):
            return f"snapped position {p} does not lie on the link it names"
    r = rn.route(o, d)
    if (len(r) == 0) != (o == d):
        return f"route from {o} to {d} has {len(r)} links (origin == destination: {o == d})"
    if r:
        if r[0].start != o.geoid or r[-1].end != d.geoid:
            return f"route from {o} to {d} starts at {r[0].start} / ends at {r[-1].end}"
        for a, b in zip(r, r[1:]):
            if a.end != b.start:
                return f"route from {o} to {d}: links {a.link_id} and {b.link_id} do not join"
        for l in r:
            if rn.link_from_link_id(l.link_id) is None:
                return f"route uses link {l.link_id} which is not in the network"
    return None


def search_C15(seed):
    """a freshly built simulation with a *stateful* instruction generator (it counts the steps it has seen and acts on a
    random one): crank(a) then crank(b), crank(a + b) and the batch runner over the same interval give the same clock and
    the same states"""
    from dataclasses import dataclass, replace as dc_replace
    from nrel.hive.app import hive_cosim
    from nrel.hive.dispatcher.instruction_generator.instruction_generator import InstructionGenerator
    from nrel.hive.runner import LocalSimulationRunner, RunnerPayload
    from nrel.hive.state.simulation_state.update.cancel_requests import CancelRequests
    from nrel.hive.state.simulation_state.update.step_simulation import StepSimulation
    from nrel.hive.state.simulation_state.update.update import Update
    rnd = random.Random(seed)
    step, a, b = rnd.choice([30, 60]), rnd.randint(1, 4), rnd.randint(1, 4)
    act_on = rnd.randint(0, a + b - 1)
    target = rnd.choice(["base", "station"])

    @dataclass(frozen=True)
    class Counting(InstructionGenerator):
        seen: int = 0

        def generate_instructions(self, sim, env):
            ins = ()
            if self.seen == act_on:
                ins = (DispatchBaseInstruction("v0", "b0"),) if target == "base" else (DispatchStationInstruction("v0", "s0", mock_dcfc_charger_id()),)
            return dc_replace(self, seen=self.seen + 1), ins

    def fresh():
        cfg = mock_config(start_time=0, end_time=(a + b) * step, timestep_duration_seconds=step)
        env = mock_env(cfg).set_reporter(Rep())
        sim = mock_sim(sim_time=SimTime(0), sim_timestep_duration_seconds=step, vehicles=(mock_vehicle_from_geoid(vehicle_id="v0", geoid=CELLS[0]),),
                       stations=(mock_station_from_geoid(station_id="s0", geoid=CELLS[1]),), bases=(mock_base_from_geoid(base_id="b0", geoid=CELLS[1], stall_count=2),))
        return RunnerPayload(sim, env, Update((CancelRequests(),), StepSimulation.from_tuple((Counting(),))))

    def fp(rp):
        vs = tuple((v.id, name(v), v.geoid, round(v.distance_traveled_km, 9), tuple(sorted((str(k), round(e, 9)) for k, e in v.energy.items())))
                   for v in rp.s.get_vehicles())
        return (int(rp.s.sim_time), vs, tuple((s_.id, tuple(sorted((c, cs.available_chargers) for c, cs in s_.state.items()))) for s_ in rp.s.get_stations()),
                tuple((b_.id, b_.available_stalls) for b_ in rp.s.get_bases()))
    split = hive_cosim.crank(hive_cosim.crank(fresh(), a, flush_events=False).runner_payload, b, flush_events=False).runner_payload
    whole = hive_cosim.crank(fresh(), a + b, flush_events=False).runner_payload
    batch = LocalSimulationRunner.run(fresh())
    if int(whole.s.sim_time) != (a + b) * step:
        return f"crank({a + b}) ends at {int(whole.s.sim_time)}, expected {(a + b) * step}"
    if fp(split) != fp(whole):
        return f"crank({a}); crank({b}) differs from crank({a + b}) (stateful generator acting on step {act_on}): {fp(split)} vs {fp(whole)}"
    if fp(batch) != fp(whole):
        return f"the batch runner over {a + b} steps differs from crank({a + b}): {fp(batch)} vs {fp(whole)}"
    return None


def c01_child(seed):
    """one process of the C01 search: a small random scenario driven by the built-in Dispatcher for three steps; prints a
    digest of the vehicle activities, positions and dispatched requests"""
    from nrel.hive.dispatcher.instruction_generator.dispatcher import Dispatcher
    from nrel.hive.state.simulation_state.update.step_simulation import StepSimulation
    rnd = random.Random(seed)
    cfg = mock_config()
    env = mock_env(cfg)
    ring = sorted(h3.k_ring(h3.h3_to_parent(somewhere(), 9), 1))
    pts = [h3.h3_to_center_child(c, 15) for c in ring]
    vehicles = tuple(mock_vehicle_from_geoid(vehicle_id=f"v{i}", geoid=rnd.choice(pts[:2])) for i in range(rnd.randint(1, 2)))
    sim = mock_sim(vehicles=vehicles, sim_time=SimTime(60), sim_timestep_duration_seconds=60)
    origin = rnd.choice(pts)
    names_ = ["r_ada", "r_bob", "r_cyd", "r_dee", "r_eve", "r_fay", "r_gus"]
    for k in range(rnd.randint(3, 7)):
        # ties on purpose: same origin, same value, same departure time
        sim = ops.add_entity(sim, mock_request_from_geoids(request_id=names_[k], origin=origin, destination=pts[(k + 3) % len(pts)],
                                                           departure_time=SimTime(0), value=5))
    step = StepSimulation.from_tuple((Dispatcher(cfg.dispatcher),))
    out = []
    for _ in range(3):
        sim, step = step.update(sim, env)
        sim = ops.tick(sim)
        out.append(sorted((v.id, name(v), v.geoid, getattr(v.vehicle_state, "request_id", "")) for v in sim.get_vehicles())
                   + sorted((r.id, r.dispatched_vehicle or "") for r in sim.get_requests()))
    print("DIGEST", repr(out))


def search_C01(seed):
    """the same scenario in processes with different interpreter hash seeds: identical digests"""
    import subprocess, os
    outs = {}
    for hs in ("0", "1", "2", "3", "5", "11"):
        p_ = subprocess.run([sys.executable, os.path.abspath(__file__), "C01-child", str(seed)], capture_output=True, text=True,
                            env=dict(os.environ, PYTHONHASHSEED=hs))
        d = [l for l in p_.stdout.splitlines() if l.startswith("DIGEST")]
        outs[hs] = d[0] if d else "no digest: " + p_.stderr[-200:]
    if len(set(outs.values())) > 1:
        a_, b_ = sorted(set(outs.values()))[:2]
        return ("the same scenario gives different results under different interpreter hash seeds "
                f"({ {k: sorted(set(outs.values())).index(v) for k, v in outs.items()} }): {a_[:300]} ... vs ... {b_[:300]}")
    return None


def search_C07(seed):
    """travelling activities entered directly with hand-made routes (empty, or between the wrong cells) for a target that
    is not where the vehicle stands: enter() must refuse, because the route has to lead from the vehicle to the target"""
    from nrel.hive.state.vehicle_state.dispatch_station import DispatchStation
    from nrel.hive.state.vehicle_state.dispatch_base import DispatchBase
    from nrel.hive.state.vehicle_state.dispatch_trip import DispatchTrip
    rnd = random.Random(seed)
    env = mock_env().set_reporter(Rep())
    here, there, other = rnd.sample(CELLS, 3)
    sim = mock_sim(vehicles=(mock_vehicle_from_geoid(vehicle_id="v0", geoid=here),), stations=(mock_station_from_geoid(station_id="s0", geoid=there),),
                   bases=(mock_base_from_geoid(base_id="b0", geoid=there),), sim_time=SimTime(600))
    sim = ops.add_entity(sim, mock_request_from_geoids(request_id="r0", origin=there, destination=other, departure_time=SimTime(500)))
    route = rnd.choice([(), mock_route_from_geoids(here, other), mock_route_from_geoids(other, there)])
    state = rnd.choice([DispatchStation.build("v0", "s0", route, mock_dcfc_charger_id()), DispatchBase.build("v0", "b0", route), DispatchTrip.build("v0", "r0", route)])
    err, sim2 = state.enter(sim, env)
    if err is None and sim2 is not None:
        what = "an empty route" if not route else f"a route from {route[0].start} to {route[-1].end}"
        return (f"{type(state).__name__}.enter accepted {what} although the vehicle stands at {here} and the target is at {there}: "
                f"v0 is now {name(sim2.vehicles['v0'])} at {sim2.vehicles['v0'].geoid}")
    return None


def search_C18(seed):
    """one plug, one vehicle charging on it, two more sent to the station one after the other (sometimes across midnight, the
    later one with the smaller id): when the plug is freed it goes to the vehicle that joined the queue first"""
    rnd = random.Random(seed)
    env = mock_env().set_reporter(Rep())
    S, far = CELLS[0], rnd.choice(CELLS[1:])
    st = mock_station_from_geoid(station_id="s0", geoid=S, chargers=immutables.Map({mock_dcfc_charger_id(): 1}))
    first, second = rnd.choice([("v1", "v0"), ("v0", "v1")])
    vs = (mock_vehicle_from_geoid(vehicle_id="v2", geoid=S, soc=rnd.choice([0.9, 0.95, 0.97])),
          mock_vehicle_from_geoid(vehicle_id="v0", geoid=far, soc=0.4), mock_vehicle_from_geoid(vehicle_id="v1", geoid=far, soc=0.4))
    t0 = rnd.choice([600, 86400 - 180, 86400 - 60, 2 * 86400 - 120])
    sim = mock_sim(vehicles=vs, stations=(st,), sim_time=SimTime(t0), sim_timestep_duration_seconds=60)
    sim = apply_instructions(sim, env, (ChargeStationInstruction("v2", "s0", mock_dcfc_charger_id()),))
    gap = rnd.randint(1, 3)
    free_at = gap + rnd.randint(3, 6)       # the charging vehicle is sent away: the plug is released
    joined = {}
    for step in range(free_at + 6):
        if step == free_at:
            sim = apply_instructions(sim, env, (IdleInstruction("v2"),))
        if step == 0:
            sim = apply_instructions(sim, env, (DispatchStationInstruction(first, "s0", mock_dcfc_charger_id()),))
        if step == gap:
            sim = apply_instructions(sim, env, (DispatchStationInstruction(second, "s0", mock_dcfc_charger_id()),))
        before = {v.id: name(v) for v in sim.vehicles.values()}
        sim = perform_vehicle_state_updates(sim, env)
        sim = ops.tick(sim)
        for v in sim.vehicles.values():
            if name(v) == "ChargeQueueing" and v.id not in joined:
                joined[v.id] = step
        for v in sim.vehicles.values():
            if before[v.id] == "ChargeQueueing" and name(v) == "ChargingStation":
                waiting = [w.id for w in sim.vehicles.values() if name(w) == "ChargeQueueing" and joined.get(w.id, 99) < joined.get(v.id, -1)]
                if waiting:
                    return (f"at {int(sim.sim_time)} s {v.id} (joined the queue in step {joined[v.id]}) got the plug while {waiting[0]} "
                            f"(joined in step {joined[waiting[0]]}) is still waiting")
    return None


def search_C20(seed):
    """time_in_range on random times of day including every boundary: x is on shift iff it lies in the cyclic half-open
    interval [start, end)"""
    from datetime import time as dtime
    from nrel.hive.util.time_helpers import time_in_range
    rnd = random.Random(seed)
    def t(sec):
        sec %= 86400
        return dtime(sec // 3600, sec % 3600 // 60, sec % 60)
    a, b = rnd.choice([0, 3600, 21600, 61200, 79200, 86399]), rnd.choice([0, 3600, 21600, 61200, 79200, 86399])
    for x in (a, b, a - 1, b - 1, a + 1, b + 1, rnd.randrange(86400)):
        x %= 86400
        want = (a <= x < b) if a <= b else (x >= a or x < b)
        if bool(time_in_range(t(a), t(b), t(x))) != want:
            return f"time_in_range({t(a)}, {t(b)}, {t(x)}) = {time_in_range(t(a), t(b), t(x))}, the cyclic interval [start, end) says {want}"
    return None


def search_C09(seed):
    """DictOps stack dictionaries against a python list model: the most recently pushed element is popped first"""
    from nrel.hive.util.dict_ops import DictOps
    rnd = random.Random(seed)
    xs, model = immutables.Map(), {}
    for k in range(12):
        key = rnd.choice(["v0", "v1"])
        if rnd.random() < 0.6:
            obj = k if rnd.random() < 0.5 else rnd.randint(0, 2)      # equal values are pushed again (instructions compare by value)
            xs = DictOps.add_to_stack_dict(xs, key, obj)
            model.setdefault(key, []).append(obj)
        else:
            got, xs = DictOps.pop_from_stack_dict(xs, key)
            want = model.get(key, []).pop() if model.get(key) else None
            if got != want:
                return f"pop_from_stack_dict returned {got}, the most recently pushed element of {key} is {want}"
        if {k_: list(reversed(v)) for k_, v in xs.items() if v} != {k_: v for k_, v in model.items() if v}:
            return f"stack dictionary {dict(xs)} disagrees with the pushes and pops made: {model}"
    return None


def search_C11(seed):
    """_add_row_to_this_update on random rows against a dict model: the latest row wins on exactly its (key, plug) entry"""
    from nrel.hive.state.simulation_state.update.charging_price_update import _add_row_to_this_update
    rnd = random.Random(seed)
    acc, model = immutables.Map(), {}
    for _ in range(8):
        row = {"time": "0", "charger_id": rnd.choice(["DCFC", "LEVEL_2", "LEVEL_1"]), "price_kwh": rnd.choice(["0.1", "0.25", "1.5", "oops"])}
        kind = rnd.choice(["station_id", "geoid", None])
        if kind:
            row[kind] = rnd.choice(["s0", "s1"]) if kind == "station_id" else rnd.choice(["8a268cdac30ffff", "8a268cdac27ffff"])
        if rnd.random() < 0.1:
            del row["charger_id"]
        acc = _add_row_to_this_update(acc, row)
        try:
            price = float(row["price_kwh"])
            if kind and "charger_id" in row:
                model.setdefault(row[kind], {})[row["charger_id"]] = price
        except ValueError:
            pass
        if {k: dict(v) for k, v in acc.items()} != model:
            return f"after row {row}: accumulated prices {dict((k, dict(v)) for k, v in acc.items())}, latest-row-wins gives {model}"
    return None


def search_C03(seed):
    """one vehicle dispatched to one request (in a third of the cases a zero-length trip: pickup and drop-off at the same
    place, otherwise nearby), stepped a few times: the request is picked up at most once, and a reported pickup has
    removed the request from the waiting set and credited its fare exactly once"""
    from nrel.hive.reporting.reporter import ReportType
    rnd = random.Random(seed)
    o = rnd.choice(CELLS)
    d = o if rnd.random() < 0.34 else rnd.choice(CELLS)
    fare = rnd.choice([5.0, 12.5])
    env = mock_env().set_reporter(Rep())
    veh = mock_vehicle_from_geoid(vehicle_id="v0", geoid=o if rnd.random() < 0.7 else rnd.choice(CELLS), soc=1.0)
    sim = mock_sim(vehicles=(veh,), sim_time=SimTime(600), sim_timestep_duration_seconds=rnd.choice([1, 7, 60]))
    sim = ops.add_entity(sim, mock_request_from_geoids(request_id="r0", origin=o, destination=d, departure_time=SimTime(500), value=fare))
    sim = apply_instructions(sim, env, (DispatchTripInstruction("v0", "r0"),))
    pickups = 0
    for step in range(6):
        sim = ops.tick(perform_vehicle_state_updates(sim, env))
        pickups += sum(1 for r in env.reporter.reports if r.report_type == ReportType.PICKUP_REQUEST_EVENT)
        env.reporter.reports = []
        what = f"request r0 from {o} to {d}{' (zero-length trip)' if o == d else ''}, vehicle v0 dispatched to it, step {step + 1}"
        if pickups > 1:
            return f"{what}: pickup reported {pickups} times"
        if pickups == 1 and "r0" in sim.requests:
            return f"{what}: pickup reported but the request is still waiting"
        if abs(sim.vehicles["v0"].balance - fare * pickups) > 1e-9:
            return f"{what}: {pickups} pickup(s) reported, fare {fare}, vehicle balance {sim.vehicles['v0'].balance}"
    return None


def search_C10(seed):
    """pooling path: a vehicle and two requests with random fleet memberships; DispatchPoolingTrip.enter over a plan that
    contains both requests commits only if every request of the plan grants access to the vehicle"""
    from nrel.hive.model.membership import Membership
    from nrel.hive.model.vehicle.trip_phase import TripPhase
    from nrel.hive.state.vehicle_state.dispatch_pooling_trip import DispatchPoolingTrip
    rnd = random.Random(seed)
    fleets = [None, "a", "b"]
    vf = rnd.choice([(), ("a",), ("b",), ("a", "b")])
    veh = mock_vehicle_from_geoid(vehicle_id="v0", geoid=CELLS[0], membership=Membership.from_tuple(vf) if vf else Membership())
    sim = mock_sim(vehicles=(veh,), sim_time=SimTime(600))
    rf = [rnd.choice(fleets), rnd.choice(fleets)]
    for i in range(2):
        sim = ops.add_entity(sim, mock_request_from_geoids(request_id=f"r{i}", origin=CELLS[1 + i], destination=CELLS[3], departure_time=SimTime(500), fleet_id=rf[i]))
    env = mock_env().set_reporter(Rep())
    plan = (("r0", TripPhase.PICKUP), ("r1", TripPhase.PICKUP), ("r0", TripPhase.DROPOFF), ("r1", TripPhase.DROPOFF))
    route = sim.road_network.route(sim.vehicles["v0"].position, sim.requests["r0"].position)
    err, out = DispatchPoolingTrip.build("v0", plan, route).enter(sim, env)
    if err is None and out is not None:
        for i in range(2):
            if not sim.requests[f"r{i}"].membership.grant_access_to_membership(sim.vehicles["v0"].membership):
                return (f"vehicle of fleets {vf or 'none'} entered a pooling dispatch over requests of fleets {rf}: request r{i} does not grant it access")
    return None


def search_C05(seed):
    """a station defined on several rows of the stations file (random order of plug types, electric and gasoline): every
    unit of energy sold through any of its plugs shows up in the station's dispensed-energy ledger"""
    import immutables
    from nrel.hive.model.station.station import Station
    from nrel.hive.resources import mock_lobster as ml
    rnd = random.Random(seed)
    chargers = {ml.mock_l2_charger_id(): ml.mock_l2_charger(), ml.mock_dcfc_charger_id(): ml.mock_dcfc_charger(),
                "gas_pump": ml.mock_gasoline_pump()}
    env = ml.mock_env(chargers=chargers)
    rn = ml.mock_network()
    ids = list(chargers)
    rnd.shuffle(ids)
    ids = ids[:rnd.randint(1, 3)]
    builder = {}
    for cid in ids:
        row = {"station_id": "s1", "lat": "39.7539", "lon": "-104.974", "charger_id": cid, "charger_count": str(rnd.randint(1, 3)),
               "on_shift_access": "true"}
        builder["s1"] = Station.from_row(row, builder, rn, env)
    stn = builder["s1"]
    for cid in ids:
        et = stn.state[cid].charger.energy_type
        q = rnd.choice([0.5, 1.0, 7.25])
        before = stn.energy_dispensed.get(et, 0.0)
        stn = stn.tick_energy_dispensed(immutables.Map({et: q}))
        after = stn.energy_dispensed.get(et, 0.0)
        if abs(after - before - q) > 1e-9:
            return (f"station built from rows {ids}: {q} {et.name} sold through plug {cid}, dispensed ledger went from {before} to {after}")
    return None


def search_C14(seed):
    """random two-way 4x4 street grids around Denver with link speeds from {15, 40, 60, 110} kmph (in half of the grids some links carry no
    speed label and get the network's default speed, which may exceed every labelled speed), node coordinates spelled x/y or lat/lon: the inner part of every route takes the minimum total travel time (independent Dijkstra)"""
    import heapq, networkx as nx
    from math import asin, cos, radians, sin, sqrt
    from nrel.hive.model.roadnetwork.osm.osm_roadnetwork import OSMRoadNetwork
    from nrel.hive.model.entity_position import EntityPosition
    rnd = random.Random(seed)

    def hav(a, b):
        la1, lo1, la2, lo2 = map(radians, (a[0], a[1], b[0], b[1]))
        d = sin((la2 - la1) / 2) ** 2 + cos(la1) * cos(la2) * sin((lo2 - lo1) / 2) ** 2
        return 2 * 6371000.0 * asin(sqrt(d))
    n = 4
    lat_key, lon_key = rnd.choice([("y", "x"), ("lat", "lon")])
    coords = {i * n + j: (39.74 + 0.004 * i + rnd.random() * 0.001, -105.03 + 0.006 * j + rnd.random() * 0.001) for i in range(n) for j in range(n)}
    g = nx.MultiDiGraph()
    for k, (la, lo) in coords.items():
        g.add_node(k, **{lat_key: la, lon_key: lo})
    unlabelled = rnd.random() < 0.5
    default_speed = rnd.choice([40.0, 90.0, 130.0]) if unlabelled else 40.0
    table = {}
    for i in range(n):
        for j in range(n):
            for di, dj in ((0, 1), (1, 0), (1, 1)):
                a, b = i + di, j + dj
                if a < n and b < n and (di + dj < 2 or rnd.random() < 0.4):
                    for u, v in ((i * n + j, a * n + b), (a * n + b, i * n + j)):
                        sp = rnd.choice([15.0, 40.0, 60.0, 110.0])
                        length = hav(coords[u], coords[v]) * 1.02 + 2.0
                        if unlabelled and rnd.random() < 0.4:
                            # link without a speed label: the network fills in its default speed
                            sp = default_speed
                            g.add_edge(u, v, length=length)
                        else:
                            g.add_edge(u, v, length=length, speed_kmph=sp)
                        table[(u, v)] = length / 1000.0 / sp * 3600.0
    rn = OSMRoadNetwork(g, 15, default_speed)
    links = sorted(rn.link_helper.links.values(), key=lambda l: l.link_id)
    for _ in range(40):
        src, dst = rnd.sample(links, 2)
        route = rn.route(EntityPosition(src.link_id, src.start), EntityPosition(dst.link_id, dst.end))
        if len(route) < 2:
            continue
        got = sum(lt.distance_km / lt.speed_kmph * 3600.0 for lt in route[1:-1])
        u, v = int(src.link_id.split("-")[1]), int(dst.link_id.split("-")[0])
        dist, heap = {u: 0.0}, [(0.0, u)]
        while heap:
            d, x = heapq.heappop(heap)
            if d > dist.get(x, 1e30):
                continue
            for (a, b), t in table.items():
                if a == x and d + t < dist.get(b, 1e30):
                    dist[b] = d + t
                    heapq.heappush(heap, (d + t, b))
        if got > dist[v] * (1 + 1e-6) + 1e-9:
            return (f"route {src.link_id} -> {dst.link_id} (node coordinates as {lat_key}/{lon_key}) takes {got:.1f} s between the junctions, "
                    f"the fastest path takes {dist[v]:.1f} s")
    return None


def main():
    pid, seed = sys.argv[1], int(sys.argv[2])
    if pid == "C01-child":
        c01_child(seed)
        return 0
    n = int(sys.argv[3]) if len(sys.argv) > 3 else 150
    if pid == "C01":
        n = min(n, 12)          # six processes per scenario
    if pid in ("C01", "C03", "C05", "C10", "C06", "C07", "C09", "C11", "C13", "C14", "C15", "C18", "C19", "C20"):
        fn_, what_ = {"C06": (search_C06, "traverse() over a random multi-link route"), "C13": (search_C13, "route() on an in-memory 4x4 street grid"),
                      "C03": (search_C03, "one vehicle dispatched to one request (a third of them zero-length trips), six steps"),
                      "C10": (search_C10, "DispatchPoolingTrip.enter for a vehicle and two requests with random fleet memberships"),
                      "C05": (search_C05, "a station read from several rows of the stations file, energy sold through each plug"),
                      "C14": (search_C14, "route() on a random in-memory street grid with mixed link speeds"),
                      "C01": (search_C01, "one scenario with tied requests, built-in Dispatcher, six interpreter hash seeds"),
                      "C09": (search_C09, "DictOps stack dictionary operations against a list model"),
                      "C07": (search_C07, "enter() of a travelling activity with a hand-made route for a far target"),
                      "C18": (search_C18, "one plug, one charging vehicle, two vehicles queueing one after the other"),
                      "C11": (search_C11, "_add_row_to_this_update on random price rows against a dict model"),
                      "C20": (search_C20, "time_in_range on random times of day and every boundary"),
                      "C15": (search_C15, "crank / batch runner on a fresh simulation with a stateful instruction generator"),
                      "C19": ((lambda seed_: search_C19(seed_) or search_C03(seed_)), "construct_station_load_events on a random report tuple / pickup events of one dispatched vehicle over six steps")}[pid]
        for k in range(n):
            msg = fn_(seed * 100003 + k)
            if msg:
                print(what_ + ", seed", seed * 100003 + k)
                print("REPRODUCED", msg)
                return 1
        if pid not in ORACLES:
            print("not reproduced")
            return 0
    if pid not in ORACLES and pid not in ("C04", "C16"):
        print("no native oracle for", pid)
        print("not reproduced")
        return 0
    for k in range(n):
        try:
            msg, trace = scenario(pid, seed * 100003 + k)
        except Exception as e:  # noqa
            msg, trace = None, []
            if pid in ("C11",):
                msg = f"exception {e!r}"
        if msg:
            print("scenario seed", seed * 100003 + k, "trace:", "; ".join(trace))
            print("REPRODUCED", msg)
            return 1
    print("not reproduced")
    return 0


if __name__ == "__main__":
    sys.exit(main())
