"""F1 (C04): ICE.consume_energy / ICE.idle book the expended energy on the *old* vehicle, discarding the new level:
gasoline never decreases while energy_expended grows.  prints REPRODUCED if energy != initial - expended."""
import warnings; warnings.filterwarnings("ignore")
import logging; logging.disable(logging.CRITICAL)
from nrel.hive.resources.mock_lobster import *
from nrel.hive.model.energy.energytype import EnergyType
ice = mock_ice()
v = mock_vehicle(mechatronics=ice)
G = EnergyType.GASOLINE
bad = False
for name, v2 in (("consume_energy", ice.consume_energy(v, mock_route())), ("idle", ice.idle(v, 3600))):
    de = v.energy[G] - v2.energy[G]
    dx = v2.energy_expended[G] - v.energy_expended[G]
    print(name, "energy", v.energy[G], "->", v2.energy[G], "expended +", dx)
    if dx > 0 and abs(de - dx) > 1e-9:
        bad = True
print("REPRODUCED: combustion vehicle expends energy without its level dropping" if bad else "not reproduced")
