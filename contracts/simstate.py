"""Contracts for DictOps and simulation_state_ops (C08 representation invariant; frames for C02/C05/C15...)."""
import z3
from pyvc.values import *
from pyvc.tys import *
from .common import *

DO = "nrel/hive/util/dict_ops.py::DictOps."
SO = "nrel/hive/state/simulation_state/simulation_state_ops.py::"

IDX = MapTy(StrT, SetTy(StrT))
EMPTY = Sym(SetTy(StrT), SetTy(StrT).empty())

KINDS = {  # kind -> (entity map field, location index, search index, class)
    "vehicle": ("vehicles", "v_locations", "v_search", "Vehicle"),
    "request": ("requests", "r_locations", "r_search", "Request"),
    "station": ("stations", "s_locations", "s_search", "Station"),
    "base": ("bases", "b_locations", "b_search", "Base"),
}
OTHER_FIELDS = ["road_network", "sim_time", "sim_timestep_duration_seconds", "sim_h3_location_resolution",
                "sim_h3_search_resolution", "applied_instructions"]


def cell(idx, g):
    c = idx.get(g)
    return Ite(c.is_some(), c.val(), EMPTY)


def coll_add(idx, g, i):
    return idx.set(g, Sym(EMPTY.ty, z3.Store(cell(idx, g).e, i.e, True)))


def coll_remove(idx, g, i):
    s = Sym(EMPTY.ty, z3.Store(cell(idx, g).e, i.e, False))
    return Ite(s == EMPTY, idx.delete(g), idx.set(g, s))


def parent(g, res):
    return uf("h3.h3_to_parent")(g, res)


def inv08_kind(ents, loc, search, res):
    """the index maps hold exactly the entities, at exactly their cell / enclosing search cell; no empty cells"""
    g, i = bound(StrT, "g8"), bound(StrT, "i8")
    return And(
        forall([g, i], Iff(member(loc, g, i), And(ents.has(i), geoid(ents.get(i).val()) == g))),
        forall([g], Implies(loc.has(g), loc.get(g).val() != EMPTY)),
        forall([g, i], Iff(member(search, g, i), And(ents.has(i), parent(geoid(ents.get(i).val()), res) == g))),
        forall([g], Implies(search.has(g), search.get(g).val() != EMPTY)),
        forall([i], Implies(ents.has(i), ents.get(i).val().id == i)),
    )


def inv08(sim, kinds=KINDS):
    return And(*[pred("inv08", inv08_kind, getattr(sim, e), getattr(sim, l), getattr(sim, s), sim.sim_h3_search_resolution)
                 for e, l, s, _ in (KINDS[k] for k in kinds)])


def same_except(sim2, sim, fields):
    """every SimulationState field not in `fields` is equal"""
    names = [f for f, _ in sim.ty.fields() if f not in fields]
    return And(*[getattr(sim2, f) == getattr(sim, f) for f in names])


def register(R):
    P = ("C08",)
    _before = set(R.specs)
    a_idx = {"xs": IDX, "collection_id": StrT, "obj_id": StrT}
    s = R.spec(DO + "add_to_collection_dict", arg_types=a_idx, ret=IDX)
    s.ensures("value", lambda a, r: r == coll_add(a.xs, a.collection_id, a.obj_id), P).no_raise(P)

    s = R.spec(DO + "remove_from_collection_dict", arg_types=a_idx, ret=IDX)
    # deleting an absent cell raises KeyError in immutables: the caller must know the cell exists
    s.requires("cell_present", lambda a: a.xs.has(a.collection_id))
    s.ensures("value", lambda a, r: r == coll_remove(a.xs, a.collection_id, a.obj_id), P).no_raise(P)

    for kind, (ents, loc, search, cname) in KINDS.items():
        ET = R.world.class_ty(cname)
        MT = MapTy(StrT, ET)
        s = R.spec(DO + "update_entity_dictionaries#" + kind,
                   arg_types={"updated_entity": ET, "entities": MT, "locations": IDX, "search": IDX, "sim_h3_search_resolution": IntT})
        s.real_key = DO + "update_entity_dictionaries"
        s.requires("inv", lambda a: inv08_kind(a.entities, a.locations, a.search, a.sim_h3_search_resolution))
        s.requires("present", lambda a: a.entities.has(a.updated_entity.id))

        def post(a, r):
            # the code's callers read each field as "new value if truthy else the old one"
            e2 = opt_or(r.entities, a.entities)
            l2 = opt_or(r.locations, a.locations)
            s2 = opt_or(r.search, a.search)
            return And(e2 == a.entities.set(a.updated_entity.id, a.updated_entity),
                       inv08_kind(e2, l2, s2, a.sim_h3_search_resolution))
        s.ensures("inv_preserved", post, P).no_raise(P)

    SIM = R.world.class_ty("SimulationState")

    def k_inv(kind):
        return lambda a: inv08(a.sim, [kind])

    # ---- add / modify / remove per entity kind
    for kind, (ents, loc, search, cname) in KINDS.items():
        argname = {"vehicle": "vehicle", "request": "request", "station": "station", "base": "base"}[kind]
        upd = {"vehicle": "updated_vehicle", "request": "updated_request", "station": "updated_station", "base": "updated_base"}[kind]
        idn = f"{kind}_id"

        s = R.spec(SO + f"add_{kind}_safe")
        s.requires("inv", k_inv(kind))
        s.requires("fresh_id", (lambda ents, argname: lambda a: Not(getattr(a.sim, ents).has(getattr(a, argname).id)))(ents, argname))
        s.ensures("inv_preserved", (lambda kind: lambda a, r: Implies(is_success(r), inv08(unwrap(r), [kind])))(kind), P)
        s.ensures("point_update", (lambda ents, loc, search, argname: lambda a, r: Implies(is_success(r), And(
            getattr(unwrap(r), ents) == getattr(a.sim, ents).set(getattr(a, argname).id, getattr(a, argname)),
            same_except(unwrap(r), a.sim, [ents, loc, search]))))(ents, loc, search, argname), P)
        s.no_raise(P)

        s = R.spec(SO + f"modify_{kind}_safe")
        s.requires("inv", k_inv(kind))
        s.ensures("inv_preserved", (lambda kind: lambda a, r: Implies(is_success(r), inv08(unwrap(r), [kind])))(kind), P)
        s.ensures("point_update", (lambda ents, loc, search, upd: lambda a, r: Implies(is_success(r), And(
            getattr(a.sim, ents).has(getattr(a, upd).id),
            getattr(unwrap(r), ents) == getattr(a.sim, ents).set(getattr(a, upd).id, getattr(a, upd)),
            same_except(unwrap(r), a.sim, [ents, loc, search]))))(ents, loc, search, upd), P)
        if kind in ("station", "base"):
            s.ensures("never_moves", (lambda ents, upd: lambda a, r: Implies(is_success(r),
                      geoid(getattr(a.sim, ents).get(getattr(a, upd).id).val()) == geoid(getattr(a, upd))))(ents, upd), P + ("C07",))
            s.ensures("index_untouched", (lambda loc, search: lambda a, r: Implies(is_success(r), And(
                getattr(unwrap(r), loc) == getattr(a.sim, loc), getattr(unwrap(r), search) == getattr(a.sim, search))))(loc, search), P)
        s.ensures("fails_iff_absent", (lambda ents, upd: lambda a, r: Implies(Not(getattr(a.sim, ents).has(getattr(a, upd).id)), is_failure(r)))(ents, upd), P)
        s.no_raise(P)

        s = R.spec(SO + f"remove_{kind}_safe")
        s.requires("inv", k_inv(kind))
        s.ensures("inv_preserved", (lambda kind: lambda a, r: Implies(is_success(r), inv08(unwrap(r), [kind])))(kind), P)
        s.ensures("removed", (lambda ents, loc, search, idn: lambda a, r: And(
            Iff(is_success(r), getattr(a.sim, ents).has(getattr(a, idn))),
            Implies(is_success(r), And(getattr(unwrap(r), ents) == getattr(a.sim, ents).delete(getattr(a, idn)),
                                       same_except(unwrap(r), a.sim, [ents, loc, search])))))(ents, loc, search, idn), P)
        s.no_raise(P)

    for k in set(R.specs) - _before:
        R.specs[k].unfold = {"inv08"}
