"""Instruction application (C09), StepSimulation.update and Update.apply_update (C02 / C15 top level)."""
import z3
from pyvc.values import *
from pyvc.tys import *
from .common import *
from .statemachine import wf, WF_PRE, ids_ok, inv02, SHAPE, as_union, VST
from .servicing import others_unchanged, ESO
from .iteration import at, SSO
from .simstate import same_except

INS = "nrel/hive/dispatcher/instruction/instructions.py::"
INSTR = ["IdleInstruction", "DispatchTripInstruction", "DispatchPoolingTripInstruction", "DispatchStationInstruction",
         "ChargeStationInstruction", "ChargeBaseInstruction", "DispatchBaseInstruction", "RepositionInstruction",
         "ReserveBaseInstruction", "OutOfServiceInstruction"]


def register(R):
    world = R.world
    SIM = world.class_ty("SimulationState")
    IU = UnionTy(world, "Instruction")
    IR = world.class_ty("InstructionResult")

    def AI_POST(a, r):
        """an instruction only *proposes* a transition of its own vehicle out of that vehicle's current activity"""
        vid = Sym(IU, a.self.e).vehicle_id
        res = r[1].val()
        return And(Or(ok(r), failed(r)),
                   Implies(ok(r), And(a.sim_state.vehicles.has(vid),
                                      res.prev_state == a.sim_state.vehicles.get(vid).val().vehicle_state,
                                      res.next_state.vehicle_id == vid,
                                      res.next_state.instance_id != res.prev_state.instance_id)))
    for c in INSTR:
        s = R.spec(INS + c + ".apply_instruction")
        s.opaque = True
        s.ensures("proposes_transition_of_own_vehicle", AI_POST, ("C09",))
        if c == "DispatchPoolingTripInstruction":
            s.assume_only("pooling instruction: trip-plan checks over a symbolic plan are out of reach")
    R.virtual("Instruction", "apply_instruction")

    # ------------------------------------------------------------ apply_instructions
    k = SSO + "apply_instructions"
    ISEQ = SeqTy(IU)
    s = R.spec(k, arg_types={"instructions": ISEQ}, ret=SIM)
    s.opaque = True
    s.requires("wf", WF_PRE).requires("inv02", lambda a: inv02(a.sim))
    # at most one instruction per vehicle (StepSimulation.update keeps the head of each vehicle's stack)
    s.requires("one_per_vehicle", lambda a: forall([bound(IntT, "i_op"), bound(IntT, "j_op")], Implies(
        And(bound(IntT, "i_op") >= 0, bound(IntT, "i_op") < bound(IntT, "j_op"), bound(IntT, "j_op") < a.instructions.len()),
        at(a.instructions, bound(IntT, "i_op")).vehicle_id != at(a.instructions, bound(IntT, "j_op")).vehicle_id)))

    def ai_post(a, r):
        return And(wf(r), inv02(r), r.sim_time == a.sim.sim_time,
                   r.sim_timestep_duration_seconds == a.sim.sim_timestep_duration_seconds)
    s.ensures("counts_matched_clock_untouched", ai_post, ("C02", "C09", "C15", "C08"))
    s.no_raise(("C09",))

    RT = TupleTy([IU, IR])
    RSEQ = SeqTy(RT)

    def res_at(results, k_):
        """the proposed transition of the k-th (instruction, result) pair"""
        return at(results, k_)[1]

    def results_ok(sim, results, lo):
        """every pending proposed transition starts from its vehicle's current activity; vehicles are distinct"""
        kx, ky = bound(IntT, "k_ro"), bound(IntT, "l_ro")
        rk = res_at(results, kx)
        return And(forall([kx], Implies(And(kx >= lo, kx < results.len()), And(
                       sim.vehicles.has(rk.prev_state.vehicle_id),
                       sim.vehicles.get(rk.prev_state.vehicle_id).val().vehicle_state == rk.prev_state,
                       rk.next_state.vehicle_id == rk.prev_state.vehicle_id))),
                   forall([kx, ky], Implies(And(kx >= 0, kx < ky, ky < results.len()),
                                            res_at(results, kx).prev_state.vehicle_id != res_at(results, ky).prev_state.vehicle_id)))

    def inv1(v, i, xs, v0):
        # first loop: only applied_instructions changes; the collected proposals are about distinct, current vehicles,
        # none of which is the vehicle of an instruction still to be processed
        kx, j = bound(IntT, "k_i1"), bound(IntT, "j_i1")
        return And(v.sim == v0.sim,
                   results_ok(v.sim, v.results, 0),
                   forall([kx, j], Implies(And(kx >= 0, kx < v.results.len(), j >= i, j < xs.len()),
                                           res_at(v.results, kx).prev_state.vehicle_id != at(xs, j).vehicle_id)))
    R.loop(k, "for", 0, props=("C09",), invariant=inv1, types={"results": RSEQ})

    def inv2(v, i, xs, v0):
        return And(wf(v.sim), inv02(v.sim), v.sim.sim_time == v0.sim.sim_time,
                   v.sim.sim_timestep_duration_seconds == v0.sim.sim_timestep_duration_seconds,
                   results_ok(v.sim, xs, i))
    R.loop(k, "for", 1, props=("C09", "C02"), invariant=inv2)

    # ---- C09, stated on one arbitrary instruction (loops unrolled; every instruction class x every activity):
    # a rejected instruction leaves no trace anywhere in the simulation state
    I1 = fresh(IU, "the_instruction")
    s = R.spec(k + "#single", arg_types={"instructions": (I1,)}, ret=SIM)
    s.requires("wf", WF_PRE).requires("inv02", lambda a: inv02(a.sim))

    def no_trace(a, r):
        # if the instructed vehicle is exactly as it was (the instruction did not take effect) nothing else changed
        vid = I1.vehicle_id
        return Implies(r.vehicles.get(vid) == a.sim.vehicles.get(vid), r == a.sim)
    s.ensures("rejected_instruction_changes_nothing", no_trace, ("C09",))
