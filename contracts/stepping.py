"""Instruction application (C09), StepSimulation.update and Update.apply_update (C02 / C15 top level)."""
import z3
from pyvc.values import *
from pyvc.tys import *
from .common import *
from .statemachine import wf, WF_PRE, ids_ok, inv02, SHAPE, as_union, VST
from .servicing import others_unchanged, ESO
from .iteration import at, SSO
from .simstate import same_except

INS = "nrel/hive/dispatcher/instruction/instructions.py::"
INSTR = ["IdleInstruction", "DispatchTripInstruction", "DispatchPoolingTripInstruction", "DispatchStationInstruction",
         "ChargeStationInstruction", "ChargeBaseInstruction", "DispatchBaseInstruction", "RepositionInstruction",
         "ReserveBaseInstruction", "OutOfServiceInstruction"]


def register(R):
    world = R.world
    SIM = world.class_ty("SimulationState")
    IU = UnionTy(world, "Instruction")
    IR = world.class_ty("InstructionResult")

    def AI_POST(a, r):
        """an instruction only *proposes* a transition of its own vehicle out of that vehicle's current activity"""
        vid = Sym(IU, a.self.e).vehicle_id
        res = r[1].val()
        return And(Or(ok(r), failed(r)),
                   Implies(ok(r), And(a.sim_state.vehicles.has(vid),
                                      res.prev_state == a.sim_state.vehicles.get(vid).val().vehicle_state,
                                      res.next_state.vehicle_id == vid,
                                      res.next_state.instance_id != res.prev_state.instance_id)))
    for c in INSTR:
        s = R.spec(INS + c + ".apply_instruction")
        s.opaque = True
        s.ensures("proposes_transition_of_own_vehicle", AI_POST, ("C09",))
        if c == "DispatchPoolingTripInstruction":
            s.assume_only("pooling instruction: trip-plan checks over a symbolic plan are out of reach")
    R.virtual("Instruction", "apply_instruction")

    # ------------------------------------------------------------ apply_instructions
    k = SSO + "apply_instructions"
    ISEQ = SeqTy(IU)
    s = R.spec(k, arg_types={"instructions": ISEQ}, ret=SIM)
    s.opaque = True
    s.requires("wf", WF_PRE).requires("inv02", lambda a: inv02(a.sim))
    # at most one instruction per vehicle (StepSimulation.update keeps the head of each vehicle's stack)
    s.requires("one_per_vehicle", lambda a: forall([bound(IntT, "i_op"), bound(IntT, "j_op")], Implies(
        And(bound(IntT, "i_op") >= 0, bound(IntT, "i_op") < bound(IntT, "j_op"), bound(IntT, "j_op") < a.instructions.len()),
        at(a.instructions, bound(IntT, "i_op")).vehicle_id != at(a.instructions, bound(IntT, "j_op")).vehicle_id)))

    def ai_post(a, r):
        return And(wf(r), inv02(r), r.sim_time == a.sim.sim_time,
                   r.sim_timestep_duration_seconds == a.sim.sim_timestep_duration_seconds)
    s.ensures("counts_matched_clock_untouched", ai_post, ("C02", "C09", "C15", "C08"))
    s.no_raise(("C09",))

    RT = TupleTy([IU, IR])
    RSEQ = SeqTy(RT)

    def res_at(results, k_):
        """the proposed transition of the k-th (instruction, result) pair"""
        return at(results, k_)[1]

    def results_ok(sim, results, lo):
        """every pending proposed transition starts from its vehicle's current activity; vehicles are distinct"""
        kx, ky = bound(IntT, "k_ro"), bound(IntT, "l_ro")
        rk = res_at(results, kx)
        return And(forall([kx], Implies(And(kx >= lo, kx < results.len()), And(
                       sim.vehicles.has(rk.prev_state.vehicle_id),
                       sim.vehicles.get(rk.prev_state.vehicle_id).val().vehicle_state == rk.prev_state,
                       rk.next_state.vehicle_id == rk.prev_state.vehicle_id))),
                   forall([kx, ky], Implies(And(kx >= 0, kx < ky, ky < results.len()),
                                            res_at(results, kx).prev_state.vehicle_id != res_at(results, ky).prev_state.vehicle_id)))

    def inv1(v, i, xs, v0):
        # first loop: only applied_instructions changes; the collected proposals are about distinct, current vehicles,
        # none of which is the vehicle of an instruction still to be processed
        kx, j = bound(IntT, "k_i1"), bound(IntT, "j_i1")
        return And(v.sim == v0.sim,
                   results_ok(v.sim, v.results, 0),
                   forall([kx, j], Implies(And(kx >= 0, kx < v.results.len(), j >= i, j < xs.len()),
                                           res_at(v.results, kx).prev_state.vehicle_id != at(xs, j).vehicle_id)))
    R.loop(k, "for", 0, props=("C09",), invariant=inv1, types={"results": RSEQ})

    def inv2(v, i, xs, v0):
        return And(wf(v.sim), inv02(v.sim), v.sim.sim_time == v0.sim.sim_time,
                   v.sim.sim_timestep_duration_seconds == v0.sim.sim_timestep_duration_seconds,
                   results_ok(v.sim, xs, i))
    R.loop(k, "for", 1, props=("C09", "C02"), invariant=inv2)

    # ---- C09, stated on one arbitrary instruction (loops unrolled; every instruction class x every activity):
    # a rejected instruction leaves no trace anywhere in the simulation state
    I1 = fresh(IU, "the_instruction")
    s = R.spec(k + "#single", arg_types={"instructions": (I1,)}, ret=SIM)
    s.requires("wf", WF_PRE).requires("inv02", lambda a: inv02(a.sim))

    def no_trace(a, r):
        # if the instructed vehicle is exactly as it was (the instruction did not take effect) nothing else changed
        vid = I1.vehicle_id
        return Implies(r.vehicles.get(vid) == a.sim.vehicles.get(vid), r == a.sim)
    s.ensures("rejected_instruction_changes_nothing", no_trace, ("C09",))

    # ------------------------------------------------------------ instruction stacks (C09: last generated wins)
    DO = "nrel/hive/util/dict_ops.py::DictOps."
    STK = MapTy(StrT, SeqTy(IU))
    s = R.spec(DO + "add_to_stack_dict", arg_types={"xs": STK, "collection_id": StrT, "obj": IU}, ret=STK)
    s.ensures("pushes_on_head", lambda a, r: And(
        r.get(a.collection_id).is_some(),
        r.get(a.collection_id).val().len() == Ite(a.xs.has(a.collection_id), a.xs.get(a.collection_id).val().len(), 0) + 1,
        r.get(a.collection_id).val()[0] == a.obj,
        forall([bound(StrT, "o_st")], Implies(bound(StrT, "o_st") != a.collection_id, r.get(bound(StrT, "o_st")) == a.xs.get(bound(StrT, "o_st"))))), ("C09",))
    s.no_raise(("C09",))

    s = R.spec(DO + "pop_from_stack_dict", arg_types={"xs": STK, "collection_id": StrT}, ret=TupleTy([OptTy(IU), STK]))

    def pop_post(a, r):
        stack = a.xs.get(a.collection_id)
        nonempty = And(stack.is_some(), stack.val().len() > 0)
        return And(Iff(r[0].is_some(), nonempty),
                   # the instruction that takes effect is the head of the stack: the one pushed last
                   Implies(nonempty, r[0] == some(stack.val()[0])))
    s.ensures("pops_most_recent", pop_post, ("C09",))
    s.no_raise(("C09",))

    # ------------------------------------------------------------ StepSimulation.update
    IGO = "nrel/hive/dispatcher/instruction_generator/instruction_generator_ops.py::"
    s = R.spec(IGO + "generate_instructions")
    s.opaque = True
    s.assume_only("instruction generators are an open interface (any controller); only the shape of the result is used: "
                  "a map of per-vehicle instruction stacks and the updated generators")
    def stack_wf(a, r):
        v_, k_ = bound(StrT, "v_sw"), bound(IntT, "k_sw")
        st_ = r.instruction_stack.get(v_)
        return forall([v_, k_], Implies(And(st_.is_some(), k_ >= 0, k_ < st_.val().len()), at(st_.val(), k_).vehicle_id == v_))
    s.ensures("stacks_hold_their_own_vehicles_instructions", stack_wf)
    s = R.spec(SSO + "log_instructions")
    s.opaque = True
    s.assume_only("files one INSTRUCTION report per instruction; returns None; no effect on the state")
    s.returns_none = True
    SS_ = "nrel/hive/state/simulation_state/update/step_simulation.py::StepSimulation."
    s = R.spec(SS_ + "update_instruction_generators")
    s.opaque = True
    s.assume_only("rebuilds the generator table from the updated generators; no effect on the simulation state")
    s = R.spec(SS_ + "ordered_instruction_generators", ret=SeqTy(AbstractTy("InstructionGenerator")))
    s.opaque = True
    s.assume_only("the generators in their configured order (tuple comprehension over an abstract generator table)")

    uk = SS_ + "update"
    s = R.spec(uk)
    s.opaque = True
    s.requires("wf", lambda a: wf(a.simulation_state)).requires("inv02", lambda a: inv02(a.simulation_state))

    def ss_post(a, r):
        s2 = r[0]
        return And(wf(s2), inv02(s2),
                   # every step advances the clock by exactly the configured step length (C15)
                   s2.sim_time == a.simulation_state.sim_time + a.simulation_state.sim_timestep_duration_seconds,
                   s2.sim_timestep_duration_seconds == a.simulation_state.sim_timestep_duration_seconds)
    s.ensures("one_step", ss_post, ("C02", "C15", "C08"))
    s.no_raise(("C15",))

    def fi_inv(v, i, xs, v0):
        kx, ky, j = bound(IntT, "k_fi"), bound(IntT, "l_fi"), bound(IntT, "j_fi")
        fi = v.final_instructions
        return And(
            # one instruction per vehicle: ids of the chosen instructions are pairwise distinct ...
            forall([kx, ky], Implies(And(kx >= 0, kx < ky, ky < fi.len()), at(fi, kx).vehicle_id != at(fi, ky).vehicle_id)),
            # ... because each is the head of the stack of a key already visited, and stacks hold their own vehicle's instructions
            forall([kx, j], Implies(And(kx >= 0, kx < fi.len(), j >= i, j < xs.len()), at(fi, kx).vehicle_id != at(xs, j))))
    R.loop(uk, "for", 0, props=("C09",), invariant=fi_inv, types={"final_instructions": SeqTy(IU)})

    # ------------------------------------------------------------ Update.apply_update (whole step)
    UPD = "nrel/hive/state/simulation_state/update/update.py::"
    SUF = AbstractTy("SimulationUpdateFunction")

    def pre_step_ok(recv, args, r):
        """interface contract of a pre-step update (proved for the three shipped ones): keeps the state well formed,
        the C02 counts matched, and does not touch the clock"""
        s2 = Sym(SIM, r.ty.get(r.e, 0))
        s1 = args[0]
        return Implies(And(wf(s1), inv02(s1)), And(wf(s2), inv02(s2), s2.sim_time == s1.sim_time,
                                                  s2.sim_timestep_duration_seconds == s1.sim_timestep_duration_seconds))
    R.iface("SimulationUpdateFunction", "update", pre_step_ok)

    RP = world.class_ty("RunnerPayload")
    UP = world.class_ty("UpdatePayload")
    s = R.spec(UPD + "_apply_fn")
    s.opaque = True
    s.requires("wf", lambda a: And(wf(a.p.runner_payload.s), inv02(a.p.runner_payload.s)))
    s.hide = {"ids"}
    s.ensures("keeps_invariants", lambda a, r: And(wf(r.runner_payload.s), inv02(r.runner_payload.s),
              r.runner_payload.s.sim_time == a.p.runner_payload.s.sim_time,
              r.runner_payload.s.sim_timestep_duration_seconds == a.p.runner_payload.s.sim_timestep_duration_seconds,
              v_getfield(r.runner_payload, 'e') == v_getfield(a.p.runner_payload, 'e')), ("C02", "C15"))
    s.no_raise(("C15",))

    ak = UPD + "Update.apply_update"
    s = R.spec(ak)
    s.hide = {"ids"}
    s.requires("wf", lambda a: And(wf(a.runner_payload.s), inv02(a.runner_payload.s)))

    def au_post(a, r):
        s0, s2 = a.runner_payload.s, r.s
        return And(wf(s2), inv02(s2),
                   s2.sim_time == s0.sim_time + s0.sim_timestep_duration_seconds,
                   s2.sim_timestep_duration_seconds == s0.sim_timestep_duration_seconds,
                   v_getfield(r, 'e') == v_getfield(a.runner_payload, 'e'))
    s.ensures("one_step_keeps_counts_and_advances_clock", au_post, ("C02", "C15", "C08"))
    s.no_raise(("C15",))

    def au_inv(acc, i, xs, env):
        s0 = env.runner_payload.s
        sa = acc.runner_payload.s
        return And(wf(sa), inv02(sa), sa.sim_time == s0.sim_time,
                   sa.sim_timestep_duration_seconds == s0.sim_timestep_duration_seconds,
                   v_getfield(acc.runner_payload, 'e') == v_getfield(env.runner_payload, 'e'))
    R.loop(ak, "reduce", 0, acc_type=UP, props=("C02", "C15"), invariant=au_inv)
