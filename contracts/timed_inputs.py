"""C11 / C03: timed inputs — cancellation of expired requests, admission rule, price updates."""
import z3
from pyvc.values import *
from pyvc.tys import *
from .common import *
from .statemachine import wf, inv02, ids_ok
from .simstate import same_except, inv08
from .iteration import at

UPD = "nrel/hive/state/simulation_state/update/"
P = ("C11",)


def register(R):
    world = R.world
    SIM = world.class_ty("SimulationState")

    def timeout(env):
        return env.config.sim.request_cancel_time_seconds

    # ------------------------------------------------------------ CancelRequests.update (C11, C03)
    ck = UPD + "cancel_requests.py::CancelRequests.update"
    s = R.spec(ck)
    s.requires("wf", lambda a: And(wf(a.simulation_state), inv02(a.simulation_state)))

    def expired(sim0, env, req):
        return sim0.sim_time >= req.departure_time + timeout(env)

    def cancel_post(a, r):
        s0, s2 = a.simulation_state, r[0]
        k = bound(StrT, "k_cr")
        rq = s0.requests.get(k)
        return And(
            # a waiting request is cancelled in this step iff its departure time plus the timeout has been reached;
            # every other request is left exactly as it was
            forall([k], Implies(rq.is_some(), Ite(expired(s0, a.env, rq.val()), s2.requests.get(k).is_none(), s2.requests.get(k) == rq))),
            forall([k], Implies(rq.is_none(), s2.requests.get(k).is_none())),
            same_except(s2, s0, ["requests", "r_locations", "r_search"]),
            wf(s2), inv02(s2))
    s.ensures("cancels_exactly_the_expired", cancel_post, ("C11", "C03", "C02", "C15"))
    s.no_raise(("C11",))

    def cancel_inv(acc, i, xs, env):
        s0 = env.simulation_state
        k, j, j2 = bound(StrT, "k_ci"), bound(IntT, "j_ci"), bound(IntT, "l_ci")
        rq = s0.requests.get(k)
        processed = exists([j], And(j >= 0, j < i, at(xs, j) == k))
        return And(
            same_except(acc, s0, ["requests", "r_locations", "r_search"]), wf(acc), inv02(acc),
            # ids are visited in increasing order, each is a current request id
            forall([j, j2], Implies(And(j >= 0, j < j2, j2 < xs.len()), at(xs, j) < at(xs, j2))),
            forall([j], Implies(And(j >= 0, j < xs.len()), s0.requests.has(at(xs, j)))),
            # unvisited requests are untouched, visited ones are removed iff expired
            forall([j], Implies(And(j >= i, j < xs.len()), acc.requests.get(at(xs, j)) == s0.requests.get(at(xs, j)))),
            forall([j], Implies(And(j >= 0, j < i), Ite(expired(s0, env.env, s0.requests.get(at(xs, j)).val()),
                                                        acc.requests.get(at(xs, j)).is_none(),
                                                        acc.requests.get(at(xs, j)) == s0.requests.get(at(xs, j))))),
            forall([k], Implies(rq.is_none(), acc.requests.get(k).is_none())))
    R.loop(ck, "reduce", 0, acc_type=SIM, props=("C11", "C03"), invariant=cancel_inv)
    s.requires("listed", lambda a: True)

    gk = "nrel/hive/state/simulation_state/simulation_state.py::SimulationState.get_request_ids"
    s = R.spec(gk, ret=SeqTy(StrT))
    s.opaque = True

    def ids_post(a, r):
        j, j2, k = bound(IntT, "j_gi"), bound(IntT, "l_gi"), bound(StrT, "k_gi")
        return And(forall([j, j2], Implies(And(j >= 0, j < j2, j2 < r.len()), at(r, j) < at(r, j2))),
                   forall([j], Implies(And(j >= 0, j < r.len()), a.self.requests.has(at(r, j)))),
                   forall([k], Implies(a.self.requests.has(k), And(seq_mem(r, k), seq_pos(r, k) >= 0, seq_pos(r, k) < r.len(),
                                                                        at(r, seq_pos(r, k)) == k))),
                   forall([j], Implies(And(j >= 0, j < r.len()), seq_mem(r, at(r, j)))))
    s.ensures("all_request_ids_in_order", ids_post, ("C01", "C11"))
    s.no_raise(("C11",))

    # ------------------------------------------------------------ admission of requests (C11)
    RQ = "nrel/hive/model/request/request.py::Request."
    s = R.spec(RQ + "from_row", arg_types={"row": MapTy(StrT, StrT)})
    s.opaque = True
    s.assume_only("row parsing (float(), h3.geo_to_h3, SimTime.build / datetime): returns an error or a request built from the row")
    s.ensures("shape", lambda a, r: Or(And(r[0].is_some(), r[1].is_none()), And(r[0].is_none(), r[1].is_some()), And(r[0].is_none(), r[1].is_none())))

    uk = UPD + "update_requests_from_file.py::update_requests_from_iterator._update"
    REQ = world.class_ty("Request")
    s = R.spec(uk, arg_types={"sim": SIM, "row": MapTy(StrT, StrT), "env": world.class_ty("Environment"),
                              "rate_structure": world.class_ty("RequestRateStructure")}, ret=SIM)
    s.outer_arg_types = {"it": AbstractTy("Iterator"), "initial_sim_state": SIM}
    s.requires("inv", lambda a: inv08(a.sim, ["request"]))
    from_row = None

    def adm_post(a, r, reports):
        changed = r != a.sim
        k = bound(StrT, "k_ad")
        # a row changes the state only by adding one request that has not expired yet; then exactly one ADD report is filed
        added = exists([k], And(r.requests.has(k),
                                r.requests.get(k).val().departure_time + timeout(a.env) > a.sim.sim_time,
                                same_except(r, a.sim, ["requests", "r_locations", "r_search"]),
                                forall([bound(StrT, "o_ad")], Implies(bound(StrT, "o_ad") != k, r.requests.get(bound(StrT, "o_ad")) == a.sim.requests.get(bound(StrT, "o_ad"))))))
        if len(reports) == 0:
            return Not(changed)
        if len(reports) == 1:
            return Or(Not(changed), added)
        return False
    s.ensures("adds_only_unexpired_requests", adm_post, ("C11", "C03"))

    # ------------------------------------------------------------ charging prices (C11)
    STN = "nrel/hive/model/station/station.py::Station."
    ST = world.class_ty("Station")
    PR = MapTy(StrT, RealT)

    def priced(orig, prices, c):
        """the charger state of plug type c after the update: only its price changes, only if the update names it"""
        cs = orig.state.get(c)
        return Ite(And(cs.is_some(), prices.has(c)), some(cs.val()._replace(price_per_kwh=prices.get(c).val())), cs)

    s = R.spec(STN + "update_prices", arg_types={"new_prices": PR})
    s.opaque = True
    s.transparent = {"nrel/hive/model/station/station_ops.py::station_state_updates"}

    def up_post(a, r):
        c = bound(StrT, "c_up")
        st2 = r[1].val()
        return And(ok(r), st2 == a.self._replace(state=st2.state),
                   forall([c], st2.state.get(c) == priced(a.self, a.new_prices, c)))
    s.ensures("only_named_plug_prices_change", up_post, P)
    s.no_raise(P)
    # the fold inside station_state_updates (its one caller is update_prices): after i items, exactly the plug types among
    # the first i items that the station has carry the item's price; everything else is as in the original station
    SSU = "nrel/hive/model/station/station_ops.py::station_state_updates"
    ACC_SU = TupleTy([OptTy(ExcT), OptTy(ST)])

    def su_inv(acc, i, xs, env):
        err, stn = acc
        c = bound(StrT, "c_su")
        orig = env.station
        prices = env.it.coll
        done = And(prices.has(c), items_kpos(xs, c) < i)
        cs = orig.state.get(c)
        return And(err.is_none(), stn.is_some(), stn.val() == orig._replace(state=stn.val().state),
                   forall([c], stn.val().state.get(c) == Ite(And(cs.is_some(), done),
                                                              some(cs.val()._replace(price_per_kwh=prices.get(c).val())), cs)))
    R.loop(SSU, "reduce", 0, acc_type=ACC_SU, props=P, invariant=su_inv)
    usp = UPD + "charging_price_update.py::_update_station_prices"
    s = R.spec(usp, arg_types={"prices_update": PR}, ret=SIM)
    s.opaque = True
    s.requires("wf", lambda a: wf(a.simulation_state))

    def usp_post(a, r):
        s0 = a.simulation_state
        stn = s0.stations.get(a.station_id)
        c, o = bound(StrT, "c_us"), bound(StrT, "o_us")
        st2 = r.stations.get(a.station_id)
        return And(same_except(r, s0, ["stations"]),
                   # exactly the named station, exactly the named plug types, exactly the price field
                   forall([o], Implies(o != a.station_id, r.stations.get(o) == s0.stations.get(o))),
                   Implies(stn.is_none(), r == s0),
                   # (if the station cannot be written back the state is returned unchanged)
                   Implies(stn.is_some(), Or(r == s0, And(st2.is_some(), st2.val() == stn.val()._replace(state=st2.val().state),
                                             forall([c], st2.val().state.get(c) == priced(stn.val(), a.prices_update, c))))))
    s.ensures("price_lands_on_named_station_and_plugs_only", usp_post, ("C11",))
    s.ensures("keeps_state_well_formed", lambda a, r: wf(r), ("C11", "C08"))
    s.no_raise(P)
    _add_row(R)
    _late(R)


def _add_row(R):
    """_add_row_to_this_update: latest-row-wins accumulation of one price row into {station|region -> {plug -> price}}:
    exactly the (key, plug) entry named by the row is set to the row's price, every other entry is kept; a row that
    cannot be used (no price / plug / key, unparsable price) leaves the accumulator unchanged and never raises."""
    PR = MapTy(StrT, RealT)
    ACC = MapTy(StrT, PR)
    ROW = MapTy(StrT, StrT)
    k = UPD + "charging_price_update.py::_add_row_to_this_update"
    s = R.spec(k, arg_types={"acc": ACC, "row": ROW}, ret=ACC)
    s.opaque = True

    def post(a, r):
        row, acc = a.row, a.acc
        lit = lambda x: lift(x)
        has_sid, has_gid = row.has(lit("station_id")), row.has(lit("geoid"))
        key = Ite(has_sid, row.get(lit("station_id")).val(), row.get(lit("geoid")).val())
        plug = row.get(lit("charger_id")).val()
        price_txt = row.get(lit("price_kwh")).val()
        usable = And(row.has(lit("price_kwh")), row.has(lit("charger_id")), Or(has_sid, has_gid))
        o, c = bound(StrT, "o_ar"), bound(StrT, "c_ar")
        old_entry = acc.get(key)
        new_entry = r.get(key)
        changed = And(
            forall([o], Implies(o != key, r.get(o) == acc.get(o))),
            new_entry.is_some(),
            new_entry.val().has(plug),
            forall([c], Implies(c != plug, new_entry.val().get(c) == Ite(old_entry.is_some(), old_entry.val().get(c), Sym(OptTy(RealT), OptTy(RealT).none())))))
        return And(Implies(Not(usable), r == acc), Implies(usable, Or(r == acc, changed)),
                   # the unchanged outcome of a usable row is only the unparsable price
                   Implies(And(usable, uf("float_parses")(price_txt)), And(changed, new_entry.val().get(plug).val() == uf("float_of_str")(price_txt))))
    s.ensures("latest_row_wins_on_exactly_its_entry", post, ("C11",))
    s.no_raise(("C11",))


def _keys_of(xs):
    return xs.e


def register_price_update(R):
    pass


def _late(R):
    """ChargingPriceUpdate.update: never raises (a table may mention only some stations), touches only stations"""
    world = R.world
    SIM = world.class_ty("SimulationState")
    PR = MapTy(StrT, RealT)
    ck = UPD + "charging_price_update.py::ChargingPriceUpdate.update"
    s = R.spec(ck)
    s.hide = {"ids"}
    s.requires("wf", lambda a: wf(a.sim_state))
    s.requires("per_station_table", lambda a: Not(a.self.use_defaults))
    s.ensures("only_stations_change", lambda a, r: And(same_except(r[0], a.sim_state, ["stations"]), wf(r[0])), ("C11", "C15"))
    s.no_raise(("C11",))
    m = R.spec(UPD + "charging_price_update.py::_map_to_station_ids", ret=MapTy(StrT, PR))
    m.opaque = True
    m.assume_only("maps region keys to station ids through a local dict built in place and nested generator expressions over "
                  "symbolic sets: out of reach; its two defects (F7b order, F9 widening) were found by the site scanner / natively and fixed")
    R.iface("DictReaderStepper", "read_until_stop_condition", None, ret=AbstractTy("Iterator"))
    R.loop(ck, "reduce", 0, acc_type=MapTy(StrT, PR), props=("C11",), abstract_seq=SeqTy(MapTy(StrT, StrT)),
           invariant=lambda acc, i, xs: True)

    def upd_inv(acc, i, xs, env):
        return And(same_except(acc, env.sim_state, ["stations"]), wf(acc))
    R.loop(ck, "reduce", 2, acc_type=SIM, props=("C11",), invariant=upd_inv)
    R.loop(ck, "reduce", 1, acc_type=SIM, props=("C11",), invariant=upd_inv)
