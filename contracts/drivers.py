"""C20: human drivers follow their shift schedule."""
import z3
from pyvc.values import *
from pyvc.tys import *
from .common import *
from .statemachine import wf, WF_PRE, WF_KEPT, SHAPE, ids_ok, inv02, l1_instances, driver_vid
from .servicing import others_unchanged
from .simstate import same_except, inv08

TH = "nrel/hive/util/time_helpers.py::"
TRS = "nrel/hive/model/vehicle/schedules/time_range_schedule.py::"
HDS = "nrel/hive/state/driver_state/human_driver_state/human_driver_state.py::"
DEO = "nrel/hive/reporting/driver_event_ops.py::"
DS = "nrel/hive/state/driver_state/driver_state.py::"
P = ("C20",)
DAY = 86400


def in_shift(start, end, x):
    """the property's reading of a shift [start, end) taken cyclically on the seconds of a day:
    inside iff the time elapsed since the start (mod one day) is less than the shift's length (mod one day)"""
    return ((x - start) % DAY) < ((end - start) % DAY)


def register(R):
    world = R.world
    s = R.spec(TH + "time_in_range", arg_types={"start": IntT, "end": IntT, "x": IntT}, ret=BoolT)
    s.requires("seconds_of_day", lambda a: And(a.start >= 0, a.start < DAY, a.end >= 0, a.end < DAY, a.x >= 0, a.x < DAY))
    s.ensures("cyclic_interval", lambda a, r: Iff(r, in_shift(a.start, a.end, a.x)), P)
    s.no_raise(P)

    # parsing "HH:MM:SS" -> seconds of day: datetime (trusted)
    s = R.spec(TH + "read_time_string", arg_types={"input_string": StrT}, ret=IntT)
    s.opaque = True
    s.assume_only("datetime.strptime(...).time(): a time of day is modelled as its seconds since midnight")
    s.ensures("range", lambda a, r: And(r >= 0, r < DAY))

    # the schedule closure built per row of the schedules file
    k = TRS + "read_time_range_row._schedule_fn"
    s = R.spec(k, arg_types={"sim": world.class_ty("SimulationState"), "vehicle_id": StrT}, ret=BoolT)
    s.outer_arg_types = {"acc": MapTy(StrT, AbstractTy("Callable")), "row": MapTy(StrT, StrT)}
    s.requires("time", lambda a: a.sim.sim_time >= 0)
    s.ensures("on_shift_iff_time_of_day_in_shift", lambda a, r: Iff(r, in_shift(a.closure.start_time, a.closure.end_time, a.sim.sim_time % DAY)), P)
    s.no_raise(P)

    # ------------------------------------------------------------ driver state updates
    s = R.spec(DEO + "driver_schedule_event")
    s.opaque = True
    s.report("DRIVER_SCHEDULE_EVENT", lambda a: {"vehicle_id": a.vehicle.id, "sim_time_start": a.sim.sim_time})
    s.report_props = ("C20", "C19")

    s = R.spec(DS + "DriverState.apply_new_driver_state", arg_types={"new_state": UnionTy(world, "DriverState")})
    s.opaque = True
    s.requires("inv", lambda a: inv08(a.sim, ["vehicle"])).requires("ids", lambda a: ids_ok(a.sim))
    s.ensures("sets_driver_state", lambda a, r: And(Or(ok(r), failed(r)), Implies(ok(r), And(
        a.sim.vehicles.has(a.vehicle_id),
        r[1].val().vehicles == a.sim.vehicles.set(a.vehicle_id, a.sim.vehicles.get(a.vehicle_id).val()._replace(driver_state=a.new_state)),
        same_except(r[1].val(), a.sim, ["vehicles"]), inv08(r[1].val(), ["vehicle"])))), P + ("C08",))
    s.no_raise(P)

    def sched(a):
        f = a.env.schedules.get(a.self.attributes.schedule_id)
        call = iface_call(f.val(), a.sim, a.self.attributes.vehicle_id)
        return f, call

    def iface_call(f, sim, vid):
        from .common import _UF
        ex = _UF["__ex__"]
        return ex.uf_apply(f"call_{f.ty.name}", [f, sim, vid], BoolT)

    DSU = UnionTy(world, "DriverState")

    def upd_post(expected_cls_when_flip, now_available):
        def post(a, r):
            f, on = sched(a)
            vid = a.self.attributes.vehicle_id
            s2 = r[1].val()
            ds2 = s2.vehicles.get(vid).val().driver_state
            flips = And(f.is_some(), on != now_available)
            return Implies(And(ok(r), a.sim.vehicles.has(vid)), And(
                # afterwards the driver is available exactly when the schedule says so (when a schedule exists)
                Implies(f.is_some(), Iff(ds2.is_a("HumanAvailable"), on)),
                Implies(flips, And(ds2.is_a(expected_cls_when_flip),
                                   ds2.as_a(expected_cls_when_flip).attributes == a.self.attributes)),
                Implies(Not(flips), s2 == a.sim),
                Implies(flips, And(same_except(s2, a.sim, ["vehicles"]),
                                   s2.vehicles == a.sim.vehicles.set(vid, a.sim.vehicles.get(vid).val()._replace(driver_state=ds2))))))
        return post

    def upd_reports(now_available, ev):
        def post(a, r, reports):
            f, on = sched(a)
            vid = a.self.attributes.vehicle_id
            flips = And(f.is_some(), on != now_available, a.sim.vehicles.has(vid))
            if len(reports) == 0:
                return Not(And(flips, ok(r)))
            if len(reports) != 1:
                return False
            return And(flips, reports[0].fields["vehicle_id"] == a.sim.vehicles.get(vid).val().id)
        return post

    for cname, now, other in (("HumanAvailable", True, "HumanUnavailable"), ("HumanUnavailable", False, "HumanAvailable")):
        s = R.spec(HDS + f"{cname}.update")
        s.opaque = True
        s.requires("wf", WF_PRE)
        s.requires("own_state", lambda a: Implies(a.sim.vehicles.has(a.self.attributes.vehicle_id),
                   a.sim.vehicles.get(a.self.attributes.vehicle_id).val().driver_state == Sym(DSU, a.self.e)))
        s.ensures("shape", SHAPE, ("C09",))
        s.ensures("available_iff_on_shift", upd_post(other, now), P)
        s.ensures("one_report_iff_flip", upd_reports(now, None), P + ("C19",))
        s.ensures("wf_kept", WF_KEPT, ("C08",))

    s = R.spec("nrel/hive/state/driver_state/human_driver_state/human_unavailable_charge_parameters.py::HumanUnavailableChargeParameters.build")
    s.opaque = True
    s.assume_only("only used as: returns some charge-parameters value and files no report (body: station search, out of reach)")

    # ---- what every driver-state update may do to the rest of the state (virtual contract of DriverState.update)
    def DRV_PRE_INV(a):
        return inv02(a.sim)

    def DRV_FRAME(a, r):
        s2 = r[1].val()
        vid = driver_vid(Sym(DSU, a.self.e))
        return Implies(ok(r), And(inv02(s2), others_unchanged(s2.vehicles, a.sim.vehicles, vid),
                                  same_except(s2, a.sim, ["vehicles"]),
                                  Implies(a.sim.vehicles.has(vid), And(s2.vehicles.has(vid),
                                          s2.vehicles.get(vid).val().vehicle_state == a.sim.vehicles.get(vid).val().vehicle_state))))

    def DRV_L1(a, r):
        s2 = r[1].val()
        vid = driver_vid(Sym(DSU, a.self.e))
        return Implies(And(ok(r), a.sim.vehicles.has(vid), s2.vehicles.has(vid)),
                       l1_instances(a.sim.vehicles, vid, s2.vehicles.get(vid).val()))

    ADS = "nrel/hive/state/driver_state/autonomous_driver_state/autonomous_available.py::AutonomousAvailable.update"
    s = R.spec(ADS)
    s.opaque = True
    s.requires("wf", WF_PRE)
    s.ensures("shape", SHAPE, ("C09",))
    s.ensures("wf_kept", WF_KEPT, ("C08",))

    def OWN_STATE(a):
        vid = driver_vid(Sym(DSU, a.self.e))
        return Implies(a.sim.vehicles.has(vid), a.sim.vehicles.get(vid).val().driver_state == Sym(DSU, a.self.e))
    for key_ in (HDS + "HumanAvailable.update", HDS + "HumanUnavailable.update", ADS):
        s = R.specs[key_]
        s.pre = [c for c in s.pre if c.name != "own_state"]
        s.requires("own_state", OWN_STATE)
        s.requires("inv02", DRV_PRE_INV)
        s.ensures("only_driver_state_changes", DRV_FRAME, ("C20", "C02", "C15"))
        s.uses_lemma("L1 sum point-update (lemmas/L1.lean)", DRV_L1)
        s.unfold = {"inv02"}
    R.virtual("DriverState", "update")
