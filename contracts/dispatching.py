"""C12 / C10 / C20 (dispatcher side): eligibility filters of the built-in trip dispatcher."""
import z3
from pyvc.values import *
from pyvc.tys import *
from .common import *
from .statemachine import grants

DK = "nrel/hive/dispatcher/instruction_generator/dispatcher.py::Dispatcher.generate_instructions._solve_assignment."


def register(R):
    world = R.world
    VEH = world.class_ty("Vehicle")
    REQ = world.class_ty("Request")
    SIM = world.class_ty("SimulationState")
    lvl = [{}, {"inst_acc": SeqTy(UnionTy(world, "Instruction")), "membership_id": OptTy(StrT)}]

    s = R.spec(DK + "_valid_request", arg_types={"r": REQ}, ret=BoolT)
    s.outer_arg_types_by_level = lvl

    def vr(a, r):
        mid = a.closure.membership_id
        unassigned = Or(a.r.dispatched_vehicle.is_none(), a.r.dispatched_vehicle.val() == "")
        access = Or(mid.is_none(), a.r.membership.memberships == Sym(SetTy(StrT), SetTy(StrT).empty()), a.r.membership.memberships.has(mid.val()))
        # a request is offered to the matching only if no vehicle is assigned to it yet and it grants access to the fleet
        return Iff(r, And(unassigned, access))
    s.ensures("waiting_unassigned_and_in_fleet", vr, ("C12", "C10", "C17"))
    s.no_raise(("C12",))

    s = R.spec(DK + "_is_valid_for_dispatch", arg_types={"vehicle": VEH}, ret=BoolT)
    s.outer_arg_types_by_level = lvl

    def vd(a, r):
        mid = a.closure.membership_id
        member = Or(mid.is_none(), a.vehicle.membership.memberships == Sym(SetTy(StrT), SetTy(StrT).empty()),
                    a.vehicle.membership.memberships.has(mid.val()))
        on_shift = Not(a.vehicle.driver_state.is_a("HumanUnavailable"))
        # an eligible vehicle has its driver on shift and belongs to the fleet being matched (necessary conditions)
        return Implies(r, And(on_shift, member))
    s.ensures("eligible_implies_on_shift_and_member", vd, ("C12", "C10", "C20"))

    def vd_strict(a, r):
        # C10 (second sentence), read strictly: the dispatcher never offers a vehicle to the requests of a fleet it does not belong to
        mid = a.closure.membership_id
        return Implies(And(r, mid.is_some()), a.vehicle.membership.memberships.has(mid.val()))
    s.ensures("eligible_for_fleet_implies_member", vd_strict, ("C10",))
