"""C11: the windowed file reader (DictReaderIterator / ObjectIterator) never loses, repeats or reorders a row.

The reader is a stateful object (plain class with attribute stores).  Its state is threaded through the symbolic execution
of the real `__next__`; the contract is stated over the abstract view
    pending(state) = ([history] if history else []) ++ rows[pos:]
the rows still to be delivered, in file order:
  * a returned row is the head of pending, its step value parses and satisfies the stop condition, pending loses its head;
  * StopIteration leaves pending unchanged (a row read past the window is kept in `history`), and is raised only when
    pending is empty or its head parses and does not satisfy the stop condition;
  * any other exception is the parse error of the head's step value."""
import z3
from pyvc.values import *
from pyvc.tys import *
from .common import *

IT = "nrel/hive/util/iterators.py::"
P = ("C11",)


def register(R):
    ROW = MapTy(StrT, StrT)
    ROWS = SeqTy(ROW)
    VAL = ResultTy(IntT)                       # parser result: an Exception or a value
    PARSER = FuncTy("RowParser", [StrT], VAL)
    STOP = FuncTy("StopCondition", [VAL], BoolT)
    ex = uf("__ex__")

    def parse(f, txt):
        return ex.uf_apply("call_Fn_RowParser", [f, txt], VAL)

    def stop(f, v):
        return ex.uf_apply("call_Fn_StopCondition", [f, v], BoolT)

    key = IT + "DictReaderIterator.__next__"
    s = R.spec(key, ret=OptTy(ROW))
    s.stateful({"reader": ("iterator", ROWS), "history": OptTy(ROW), "step_column_name": StrT, "stop_condition": STOP, "parser": PARSER})

    def rows_of(st):
        return st.fields["reader"].rows

    def pos_of(st):
        return st.fields["reader"].pos

    def hist(st):
        return st.fields["history"]

    def has_hist(st):
        return truth(hist(st))          # `if self.history:` — a stored, non-empty row

    def wf(st):
        k = bound(IntT, "k_rd")
        col = st.fields["step_column_name"]
        rows = rows_of(st)
        return And(pos_of(st) >= 0, pos_of(st) <= rows.len(),
                   # csv.DictReader rows carry every column of the header (and so are non-empty)
                   forall([k], Implies(And(k >= 0, k < rows.len()), Sym(ROW, rows.e[k.e]).has(col))),
                   Implies(hist(st).is_some(), hist(st).val().has(col)))
    s.requires("reader_state", lambda a: wf(a.self))

    def head(st):
        return Ite(has_hist(st), hist(st).val(), Sym(ROW, rows_of(st).e[pos_of(st).e]))

    def nonempty(st):
        return Or(has_hist(st), pos_of(st) < rows_of(st).len())

    def head_value(st):
        return parse(st.fields["parser"], head(st).get(st.fields["step_column_name"]).val())

    def same_config(a, new):
        return And(*[v_eq(new.fields[f], a.self.fields[f]) for f in ("step_column_name", "stop_condition", "parser")],
                   rows_of(new) == rows_of(a.self))

    def pending_unchanged(a, new):
        """pending(new) == pending(old) as sequences"""
        old = a.self
        return Or(And(v_eq(hist(new), hist(old)), pos_of(new) == pos_of(old)),
                  # the row read past the window moved from the file into `history`
                  And(Not(has_hist(old)), pos_of(old) < rows_of(old).len(), pos_of(new) == pos_of(old) + 1,
                      hist(new).is_some(), hist(new).val() == Sym(ROW, rows_of(old).e[pos_of(old).e])))

    def pending_lost_head(a, new):
        old = a.self
        return Ite(has_hist(old), And(Not(has_hist(new)), pos_of(new) == pos_of(old)),
                   And(Not(has_hist(new)), pos_of(new) == pos_of(old) + 1))

    def ret_post(a, r, new):
        old = a.self
        v = head_value(old)
        return And(nonempty(old), r.is_some(), r.val() == head(old), Not(is_failure(v)), stop(old.fields["stop_condition"], v),
                   pending_lost_head(a, new), same_config(a, new))
    s.ensures_state("returns_head_of_pending_inside_the_window", ret_post, P)

    def raise_post(a, cls, exc, new):
        old = a.self
        v = head_value(old)
        if cls == "StopIteration":
            return And(same_config(a, new), pending_unchanged(a, new),
                       Or(Not(nonempty(old)), And(Not(is_failure(v)), Not(stop(old.fields["stop_condition"], v)))))
        # anything else is the parse error of the head's step value
        return And(nonempty(old), is_failure(v))
    s.on_raise("stop_keeps_every_pending_row", raise_post, P)
    register_object_iterator(R)


def register_object_iterator(R):
    """ObjectIterator.__next__ (requests sampled in memory): same windowed protocol over a tuple of objects; the step value is
    read with getattr(item, step_attr_name) (modelled as an uninterpreted function of the object and the attribute name)."""
    ITEM = AbstractTy("Any")
    ITEMS = SeqTy(ITEM)
    VALT = AbstractTy("StepValue")
    STOP = FuncTy("ObjStopCondition", [VALT], BoolT)
    ex = uf("__ex__")

    def attr_of(x, name):
        return ex.uf_apply("getattr_dyn", [x, name], VALT)

    def stop(f, v):
        return ex.uf_apply("call_Fn_ObjStopCondition", [f, v], BoolT)

    key = IT + "ObjectIterator.__next__"
    s = R.spec(key, ret=OptTy(ITEM))
    s.stateful({"_iterator": ("iterator", ITEMS), "history": OptTy(ITEM), "step_attr_name": StrT, "stop_condition": STOP})
    rows_of = lambda st: st.fields["_iterator"].rows
    pos_of = lambda st: st.fields["_iterator"].pos
    hist = lambda st: st.fields["history"]
    has_hist = lambda st: hist(st).is_some()          # a stored object (instances are truthy)
    s.requires("reader_state", lambda a: And(pos_of(a.self) >= 0, pos_of(a.self) <= rows_of(a.self).len()))

    def head(st):
        return Ite(has_hist(st), hist(st).val(), Sym(ITEM, rows_of(st).e[pos_of(st).e]))

    def nonempty(st):
        return Or(has_hist(st), pos_of(st) < rows_of(st).len())

    def head_value(st):
        return attr_of(head(st), st.fields["step_attr_name"])

    def same_config(a, new):
        return And(v_eq(new.fields["step_attr_name"], a.self.fields["step_attr_name"]), v_eq(new.fields["stop_condition"], a.self.fields["stop_condition"]),
                   rows_of(new) == rows_of(a.self))

    def ret_post(a, r, new):
        old = a.self
        return And(nonempty(old), r.is_some(), r.val() == head(old), stop(old.fields["stop_condition"], head_value(old)),
                   Not(has_hist(new)), pos_of(new) == Ite(has_hist(old), pos_of(old), pos_of(old) + 1), same_config(a, new))
    s.ensures_state("returns_head_of_pending_inside_the_window", ret_post, P)

    def raise_post(a, cls, exc, new):
        old = a.self
        if cls != "StopIteration":
            return False
        unchanged = Or(And(v_eq(hist(new), hist(old)), pos_of(new) == pos_of(old)),
                       And(Not(has_hist(old)), pos_of(old) < rows_of(old).len(), pos_of(new) == pos_of(old) + 1,
                           hist(new).is_some(), hist(new).val() == Sym(ITEM, rows_of(old).e[pos_of(old).e])))
        return And(same_config(a, new), unchanged, Or(Not(nonempty(old)), Not(stop(old.fields["stop_condition"], head_value(old)))))
    s.on_raise("stop_keeps_every_pending_item", raise_post, P)
