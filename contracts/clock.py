"""C15: the clock advances uniformly and stepping composes (crank, LocalSimulationRunner)."""
import ast
import z3
from pyvc.values import *
from pyvc.tys import *
from .common import *
from .statemachine import wf, inv02

P = ("C15",)
CO = "nrel/hive/app/hive_cosim.py::"
LR = "nrel/hive/runner/local_simulation_runner.py::"


def register(R):
    world = R.world
    RP = world.class_ty("RunnerPayload")

    def state_ok(rp):
        return And(wf(rp.s), inv02(rp.s))

    # ghost spec functions for `stepping composes`:  step_of(u, rp) names the payload Update.apply_update returns
    # (determinism assumption on that one function), iter_steps(rp, n) is n-fold iteration of
    #   rp |-> step_of(rp.u, rp)      -- each step uses the update functions carried in the payload it steps
    UPT = world.class_ty("Update")
    _step_of = z3.Function("ghost_step_of", UPT.sort, RP.sort, RP.sort)
    _iter = z3.Function("ghost_iter_steps", RP.sort, z3.IntSort(), RP.sort)

    def step_of(u, rp):
        return Sym(RP, _step_of(u.e, rp.e))

    def one_step(rp):
        return step_of(rp.u, rp)

    def iter_steps(rp, n):
        n = n if isinstance(n, Sym) else lift(n)
        return Sym(RP, _iter(rp.e, n.e))

    def iter_def(rp):
        n = bound(IntT, "n!it")
        return And(iter_steps(rp, 0) == rp,
                   forall([n], Implies(n >= 0, iter_steps(rp, n + 1) == one_step(iter_steps(rp, n)))))
    R.ghost = getattr(R, "ghost", {})
    R.ghost.update(step_of=step_of, one_step=one_step, iter_steps=iter_steps)

    # ------------------------------------------------------------ crank
    ck = CO + "crank"
    s = R.spec(ck)
    s.hide = {"ids"}
    s.requires("ok", lambda a: And(state_ok(a.runner_payload), a.time_steps >= 0))

    def crank_post(a, r):
        s0 = a.runner_payload.s
        s2 = r.runner_payload.s
        dt = s0.sim_timestep_duration_seconds
        return And(state_ok(r.runner_payload), s2.sim_timestep_duration_seconds == dt,
                   # n calls of the step function advance the clock by exactly n steps
                   s2.sim_time == s0.sim_time + a.time_steps * dt, r.sim_time == s2.sim_time)
    s.ensures("n_steps_advance_n_dt", crank_post, P)
    # stepping composes: crank(rp, n) is the n-fold iterate of the one pure step function (then L4: iterating a then b
    # times is iterating a+b times)
    s.ghost_definition("iter_steps", lambda a: iter_def(a.runner_payload))
    s.ensures("is_n_fold_iterate_of_the_step", lambda a, r: r.runner_payload == iter_steps(a.runner_payload, a.time_steps), P)
    s.no_raise(P)

    def crank_inv(acc, i, xs, env):
        s0 = env.runner_payload.s
        return And(state_ok(acc), acc.s.sim_timestep_duration_seconds == s0.sim_timestep_duration_seconds,
                   acc.s.sim_time == s0.sim_time + i * s0.sim_timestep_duration_seconds,
                   acc == iter_steps(env.runner_payload, i))
    R.loop(ck, "reduce", 0, acc_type=RP, props=P, invariant=crank_inv)

    # ------------------------------------------------------------ batch runner
    rk = LR + "LocalSimulationRunner.run"
    s = R.spec(rk)
    s.hide = {"ids"}

    def cfg(a):
        return v_getfield(a.runner_payload, "e").config.sim

    s.requires("ok", lambda a: And(state_ok(a.runner_payload),
               cfg(a).timestep_duration_seconds == a.runner_payload.s.sim_timestep_duration_seconds,
               cfg(a).timestep_duration_seconds > 0))

    def run_post(a, r):
        c = cfg(a)
        s0 = a.runner_payload.s
        dt = c.timestep_duration_seconds
        start, end = c.start_time, c.end_time
        n = Ite(end <= start, 0, (end - start + dt - 1) // dt)
        covers = Implies(And(s0.sim_time == start, start <= end, (end - start) % dt == 0), r.s.sim_time == end)
        return And(state_ok(r), r.s.sim_time == s0.sim_time + n * dt, covers)
    s.ensures("covers_the_configured_interval", run_post, P)

    def run_iter(a, r):
        c = cfg(a)
        dt = c.timestep_duration_seconds
        start, end = c.start_time, c.end_time
        n = Ite(end <= start, 0, (end - start + dt - 1) // dt)
        return r == iter_steps(a.runner_payload, n)
    s.ghost_definition("iter_steps", lambda a: iter_def(a.runner_payload))
    s.ensures("is_n_fold_iterate_of_the_step", run_iter, P)
    s.no_raise(P)

    def run_inv(acc, i, xs, env):
        s0 = env.runner_payload.s
        return And(state_ok(acc), acc.s.sim_timestep_duration_seconds == s0.sim_timestep_duration_seconds,
                   acc.s.sim_time == s0.sim_time + i * s0.sim_timestep_duration_seconds,
                   v_getfield(acc, "e") == v_getfield(env.runner_payload, "e"),
                   acc == iter_steps(env.runner_payload, i))
    R.loop(rk, "reduce", 0, acc_type=RP, props=P, invariant=run_inv)

    s = R.spec(LR + "_run_step_in_context._run_step", arg_types={"payload": RP, "t": IntT}, ret=RP)
    s.opaque = True
    s.hide = {"ids"}
    s.outer_arg_types = {}
    s.requires("ok", lambda a: state_ok(a.payload))
    s.ensures("one_step", lambda a, r: And(state_ok(r), r.s.sim_time == a.payload.s.sim_time + a.payload.s.sim_timestep_duration_seconds,
              r.s.sim_timestep_duration_seconds == a.payload.s.sim_timestep_duration_seconds,
              v_getfield(r, "e") == v_getfield(a.payload, "e")), P)
    s.ensures("is_the_step_function", lambda a, r: r == one_step(a.payload), P)
    s.no_raise(P)

    sk = LR + "LocalSimulationRunner.step"
    s = R.spec(sk, ret=OptTy(RP))
    s.hide = {"ids"}
    s.requires("ok", lambda a: state_ok(a.runner_payload))
    s.ensures("refuses_beyond_end", lambda a, r: And(
        Iff(r.is_none(), a.runner_payload.s.sim_time >= cfg(a).end_time),
        Implies(r.is_some(), r.val().s.sim_time == a.runner_payload.s.sim_time + a.runner_payload.s.sim_timestep_duration_seconds)), P)
    s.ensures("is_the_step_function", lambda a, r: Implies(r.is_some(), r.val() == one_step(a.runner_payload)), P)
    s.no_raise(P)
    for k_ in (ck, rk, sk):
        pass
    au = R.specs["nrel/hive/state/simulation_state/update/update.py::Update.apply_update"]
    au.opaque = True
    au.determined_by("step_of", lambda a, r: r == step_of(a.self, a.runner_payload), P)
