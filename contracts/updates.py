"""Update layer: charge, move, traverse (contract), per-state _perform_update / update, step_vehicle.
C02 (counters untouched by updates), C05 (charge conserves), C06 (move), C17 (record cleared when stopping)."""
import z3
from pyvc.values import *
from pyvc.tys import *
from .common import *
from .simstate import inv08, same_except, KINDS, SO
from .statemachine import *
from .servicing import veh_frame, others_unchanged, ESO

VSO = "nrel/hive/state/vehicle_state/vehicle_state_ops.py::"
VEO = "nrel/hive/reporting/vehicle_event_ops.py::"
RT = "nrel/hive/model/roadnetwork/routetraversal.py::"
SSO = "nrel/hive/state/simulation_state/update/step_simulation_ops.py::"


def same_state_maps(st2, st1):
    """every station keeps its charger-state map (plug counts, queue counters, prices) and no station appears/disappears"""
    s = bound(StrT, "s_ssm")
    return forall([s], And(st2.has(s) == st1.has(s),
                           Implies(st1.has(s), And(st2.get(s).val().state == st1.get(s).val().state,
                                                   geoid(st2.get(s).val()) == geoid(st1.get(s).val()),
                                                   st2.get(s).val().membership == st1.get(s).val().membership))))


def resources_same(n2, n1):
    """two activities of one vehicle use the same plug / queue slot / stall (so the C02 counts do not move)"""
    s, c, b = bound(StrT, "s_rs"), bound(StrT, "c_rs"), bound(StrT, "b_rs")
    return And(forall([s, c], And(holds(n2, s, c) == holds(n1, s, c), queues(n2, s, c) == queues(n1, s, c))),
               forall([b], parks(n2, b) == parks(n1, b)))


def neutral(sim2, sim, vid):
    """an update of vehicle vid that takes or releases no plug, queue slot or stall"""
    v1 = sim.vehicles.get(vid).val()
    v2 = sim2.vehicles.get(vid).val()
    return And(sim.vehicles.has(vid), sim2.vehicles.has(vid),
               sim2.vehicles == sim.vehicles.set(vid, v2),
               v2.id == v1.id, v2.membership == v1.membership, v2.mechatronics_id == v1.mechatronics_id,
               v2.vehicle_state.vehicle_id == vid,
               resources_same(v2.vehicle_state, v1.vehicle_state),
               same_state_maps(sim2.stations, sim.stations),
               sim2.bases == sim.bases,
               sim2.sim_time == sim.sim_time, sim2.sim_timestep_duration_seconds == sim.sim_timestep_duration_seconds,
               sim2.sim_h3_search_resolution == sim.sim_h3_search_resolution,
               sim2.sim_h3_location_resolution == sim.sim_h3_location_resolution,
               sim2.road_network == sim.road_network,
               sim2.applied_instructions == sim.applied_instructions)


def register(R):
    world = R.world
    ET = world.class_ty("EnergyType")
    VEH = world.class_ty("Vehicle")
    CH = world.class_ty("Charger")
    RTV = world.class_ty("RouteTraversal")
    ROUTE = SeqTy(world.class_ty("LinkTraversal"))

    # ------------------------------------------------------------ interface contract of any mechatronics (C04; proved for BEV, ICE)
    def fr_consume(recv, args, r):
        return veh_frame(r, args[0], ["energy", "energy_expended"])
    R.iface("MechatronicsInterface", "idle", fr_consume)
    R.iface("MechatronicsInterface", "consume_energy", fr_consume)

    def fr_add(recv, args, r):
        v2 = Sym(VEH, r.ty.get(r.e, 0))
        return veh_frame(v2, args[0], ["energy", "energy_gained"])
    R.iface("MechatronicsInterface", "add_energy", fr_add)

    def mech_of(a_env, veh):
        return a_env.mechatronics.get(veh.mechatronics_id).val()

    add_energy = iface("MechatronicsInterface", "add_energy", TupleTy([VEH, IntT]))
    consume = iface("MechatronicsInterface", "consume_energy", VEH)
    idle_uf = iface("MechatronicsInterface", "idle", VEH)
    is_empty = iface("MechatronicsInterface", "is_empty", BoolT)

    # ------------------------------------------------------------ report builders used by charge / move
    s = R.spec(VEO + "vehicle_charge_event")
    s.opaque = True
    s.report("VEHICLE_CHARGE_EVENT", lambda a: {
        "vehicle_id": a.next_vehicle.id, "station_id": a.station.id, "charger_id": a.charger.id,
        "energy": a.next_vehicle.energy.get(a.charger.energy_type).val() - a.prev_vehicle.energy.get(a.charger.energy_type).val()})
    s.report_props = ("C19",)

    s = R.spec(VEO + "vehicle_move_event")
    s.opaque = True
    s.assume_only("report builder: its fold over energy.keys() (a Map view, at most one key after the guard) is out of reach; field values assumed")
    s.report("VEHICLE_MOVE_EVENT", lambda a: {
        "vehicle_id": a.next_vehicle.id,
        "distance_km": a.next_vehicle.distance_traveled_km - a.prev_vehicle.distance_traveled_km})
    s.report_props = ("C19",)

    # ------------------------------------------------------------ charge (C05)
    s = R.spec(VSO + "charge")
    s.opaque = True
    s.requires("wf", WF_PRE)

    def charge_parts(a, r):
        s2 = r[1].val()
        veh = a.sim.vehicles.get(a.vehicle_id).val()
        stn = a.sim.stations.get(a.station_id).val()
        cs = stn.state.get(a.charger_id).val()
        ch = cs.charger
        k = ch.energy_type
        mech = mech_of(a.env, veh)
        res = add_energy(mech, veh, ch, a.sim.sim_timestep_duration_seconds)
        cv = Sym(VEH, res.ty.get(res.e, 0))
        q = cv.energy.get(k).val() - veh.energy.get(k).val()
        amount = Ite(cs.price_per_kwh != 0, q * cs.price_per_kwh, 0)
        v2 = s2.vehicles.get(a.vehicle_id).val()
        st2 = s2.stations.get(a.station_id).val()
        disp = []
        for m in ET.members:
            km = Sym(ET, ET.const(m))
            disp.append(st2.energy_dispensed.has(km) == stn.energy_dispensed.has(km))
            disp.append(Implies(stn.energy_dispensed.has(km),
                                st2.energy_dispensed.get(km).val() == stn.energy_dispensed.get(km).val() + Ite(km == k, q, 0)))
        return {
            "exists": And(a.sim.vehicles.has(a.vehicle_id), a.sim.stations.has(a.station_id), stn.state.has(a.charger_id)),
            # the vehicle's side: level/gained from add_energy, payment = energy x this plug's tariff at this station
            "vehicle": And(s2.vehicles == a.sim.vehicles.set(a.vehicle_id, v2), v2 == cv._replace(balance=cv.balance - amount)),
            # the station's side: receives exactly the payment, dispenses exactly the energy, nothing else changes
            "station": And(s2.stations == a.sim.stations.set(a.station_id, st2),
                           st2 == stn._replace(balance=stn.balance + amount, energy_dispensed=st2.energy_dispensed), *disp),
            "frame": same_except(s2, a.sim, ["vehicles", "stations"]),
        }
    s.ensures("never_state_and_error", lambda a, r: Or(ok(r), failed(r), nothing(r)), ("C09",))
    s.ensures("both_ledgers_same_amount", lambda a, r: Implies(ok(r), And(*charge_parts(a, r).values())), ("C05",))
    s.ensures("neutral_for_counts", lambda a, r: Implies(And(ok(r), a.sim.vehicles.has(a.vehicle_id),
              a.sim.vehicles.get(a.vehicle_id).val().vehicle_state.vehicle_id == a.vehicle_id), neutral(r[1].val(), a.sim, a.vehicle_id)), ("C02",))
    s.ensures("activity_untouched", lambda a, r: Implies(And(ok(r), a.sim.vehicles.has(a.vehicle_id)),
              r[1].val().vehicles.get(a.vehicle_id).val().vehicle_state == a.sim.vehicles.get(a.vehicle_id).val().vehicle_state), ("C02", "C18"))
    s.ensures("wf_kept", WF_KEPT, ("C08",))
    s.files(lambda a, r: [(ok(r), "VEHICLE_CHARGE_EVENT", {"vehicle_id": a.vehicle_id, "station_id": a.station_id})])

    # ------------------------------------------------------------ traverse (contract; C06) — verified in routes.py
    s = R.spec(RT + "traverse")
    s.opaque = True

    def last(seq):
        return Sym(seq.ty.elem, seq.e[(seq.len() - 1).e])

    def trav_post(a, r):
        t = r[1].val()
        ex_, rem, route = t.experienced_route, t.remaining_route, a.route_estimate
        j_ = bound(IntT, "j_wf")
        rt_ = a.route_estimate
        at_ = lambda q, k_: Sym(q.ty.elem, q.e[k_.e])
        wf_route = And(forall([j_], Implies(And(j_ >= 0, j_ + 1 < rt_.len()), at_(rt_, j_).end == at_(rt_, j_ + 1).start)),
                       forall([j_], Implies(And(j_ >= 0, j_ < rt_.len()), at_(rt_, j_).distance_km >= 0)))
        return And(Or(ok(r), failed(r)), Implies(And(ok(r), wf_route), And(
            # the driven part starts where the route starts, the remaining part ends where the route ends,
            # and the two parts join: the vehicle ends the step at the junction (C06)
            Implies(ex_.len() > 0, And(route.len() > 0, ex_[0].start == route[0].start)),
            Implies(rem.len() > 0, And(route.len() > 0, last(rem).end == last(route).end)),
            Implies(And(ex_.len() > 0, rem.len() > 0), last(ex_).end == rem[0].start),
            Implies(And(ex_.len() > 0, rem.len() == 0), last(ex_).end == last(route).end),
            Implies(Or(route.len() == 0, route[0].start == last(route).end), And(ex_.len() == 0, rem.len() == 0)),
            # ... and only then: a route that still leads somewhere is never reported as consumed (driven part followed by
            # remaining part is the original route: same destination)
            Implies(And(route.len() > 0, route[0].start != last(route).end), Or(ex_.len() > 0, rem.len() > 0)),
            t.traversal_distance_km >= 0, t.remaining_time_seconds >= 0)))
    s.ensures("junction", trav_post, ("C06",))
    # an exhausted route is answered with an (empty) traversal, not with an error or with nothing (used by move, C19 / C03)
    s.ensures("exhausted_route_is_an_empty_traversal", lambda a, r: Implies(a.route_estimate.len() == 0, ok(r)), ("C06", "C19", "C03"))
    s.requires("time", lambda a: a.duration_seconds >= 0)

    # ------------------------------------------------------------ move (C06, C17, C04 "stops when empty")
    s = R.spec(VSO + "move")
    s.opaque = True
    s.requires("wf", WF_PRE)
    s.requires("state_of_vehicle", lambda a: Implies(a.sim.vehicles.has(a.vehicle_id),
               a.sim.vehicles.get(a.vehicle_id).val().vehicle_state.vehicle_id == a.vehicle_id))
    s.ensures("never_state_and_error", lambda a, r: Or(ok(r), failed(r), nothing(r)), ("C09",))

    def moved_or_stopped(a, r):
        s2 = r[1].val()
        v1 = a.sim.vehicles.get(a.vehicle_id).val()
        v2 = s2.vehicles.get(a.vehicle_id).val()
        stopped = v2.vehicle_state.is_a("OutOfService")
        return s2, v1, v2, stopped

    def move_stop(a, r):
        # a vehicle that lacks the energy for its next movement stops: out of service, where it was, nothing booked
        s2, v1, v2, stopped = moved_or_stopped(a, r)
        return Implies(And(ok(r), stopped, Not(v1.vehicle_state.is_a("OutOfService"))),
                       And(veh_frame(v2, v1, ["vehicle_state"]), s2.vehicles == a.sim.vehicles.set(a.vehicle_id, v2)))
    s.ensures("stops_in_place_when_empty", move_stop, ("C04", "C06"))

    def move_record(a, r):
        # C17: when the vehicle is stopped on its way to a request the request's record is cleared
        s2, v1, v2, stopped = moved_or_stopped(a, r)
        dt = v1.vehicle_state.as_a("DispatchTrip")
        rq2 = s2.requests.get(dt.request_id)
        return Implies(And(ok(r), stopped, v1.vehicle_state.is_a("DispatchTrip"), a.sim.requests.has(dt.request_id)),
                       And(rq2.is_some(), rq2.val().dispatched_vehicle != some(a.vehicle_id)))
    s.ensures("record_cleared_when_stopped", move_record, ("C17",))

    def move_neutral(a, r):
        s2, v1, v2, stopped = moved_or_stopped(a, r)
        return Implies(ok(r), And(a.sim.vehicles.has(a.vehicle_id),
                                  s2.vehicles == a.sim.vehicles.set(a.vehicle_id, v2),
                                  v2.id == v1.id, v2.membership == v1.membership, v2.mechatronics_id == v1.mechatronics_id,
                                  v2.vehicle_state.vehicle_id == a.vehicle_id,
                                  s2.stations == a.sim.stations, s2.bases == a.sim.bases,
                                  same_except(s2, a.sim, ["vehicles", "v_locations", "v_search", "requests"])))
    s.ensures("only_this_vehicle_moves", move_neutral, ("C02", "C06", "C15"))
    # C19 / C03: moving along an exhausted route answers with a state (the vehicle where it was) or an error, never with `no change`
    # (None, None). The update that follows a default transition (DispatchTrip -> ServicingTrip with pickup and drop-off
    # at the same place) runs move on an empty route; step_vehicle discards the whole update on `no change`, although the
    # transition has already filed its pickup event and credited the fare: the event would be reported for a state change
    # that never happened, and again in every later step.
    def move_exhausted(a, r):
        v1 = a.sim.vehicles.get(a.vehicle_id).val()
        TRAVELLING = ["Repositioning", "DispatchTrip", "ServicingTrip", "DispatchStation", "DispatchBase", "DispatchPoolingTrip"]
        has_route = Or(*[v1.vehicle_state.is_a(c) for c in TRAVELLING])
        route_len = None
        for c in TRAVELLING:
            ln = v1.vehicle_state.as_a(c).route.len()
            route_len = ln if route_len is None else Ite(v1.vehicle_state.is_a(c), ln, route_len)
        return Implies(And(a.sim.vehicles.has(a.vehicle_id), a.env.mechatronics.has(v1.mechatronics_id), has_route, route_len == 0),
                       And(Not(nothing(r)), Implies(ok(r), geoid(r[1].val().vehicles.get(a.vehicle_id).val()) == geoid(v1))))
    s.ensures("exhausted_route_never_answers_no_change", move_exhausted, ("C19", "C03", "C06"))
    s.ensures("wf_kept", WF_KEPT, ("C08",))

    # the moved vehicle's activity takes no plug / queue slot / stall, and neither did the one it had
    def move_resources(a, r):
        s2, v1, v2, stopped = moved_or_stopped(a, r)
        return Implies(ok(r), resources_same(v2.vehicle_state, v1.vehicle_state))
    s.ensures("moving_holds_nothing", move_resources, ("C02",))

    def move_keeps_activity(a, r):
        # moving never changes the kind of activity (only its remaining route), except to OutOfService when empty
        s2, v1, v2, stopped = moved_or_stopped(a, r)
        travelling = ["Repositioning", "DispatchTrip", "ServicingTrip", "DispatchStation", "DispatchBase", "DispatchPoolingTrip", "ServicingPoolingTrip"]
        return Implies(ok(r), Or(stopped, And(*[Implies(v1.vehicle_state.is_a(m), v2.vehicle_state.is_a(m)) for m in travelling])))
    s.ensures("activity_kind_kept", move_keeps_activity, ("C06", "C02"))

    # ------------------------------------------------------------ per-state _perform_update and update
    def CURRENT(a):
        return And(a.sim.vehicles.has(a.self.vehicle_id),
                   a.sim.vehicles.get(a.self.vehicle_id).val().vehicle_state == as_union(a.self))

    def INV02_PRE(a):
        return inv02(a.sim)

    def STEP_POST(a, r):
        """what one vehicle's update may do: C02 counts stay matched, only this vehicle's entry changes, the clock and
        the structure of the state are untouched"""
        s2 = r[1].val()
        vid = a.self.vehicle_id
        return Implies(ok(r), And(inv02(s2), wf(s2),
                                  others_unchanged(s2.vehicles, a.sim.vehicles, vid),
                                  s2.vehicles.has(vid),
                                  s2.sim_time == a.sim.sim_time,
                                  s2.sim_timestep_duration_seconds == a.sim.sim_timestep_duration_seconds,
                                  s2.applied_instructions == a.sim.applied_instructions))

    def PU_POST(a, r):
        # _perform_update: as STEP_POST, proved through `neutral` and L1
        s2 = r[1].val()
        vid = a.self.vehicle_id
        return Implies(ok(r), inv02(s2))

    def PU_L1(a, r):
        s2 = r[1].val()
        vid = a.self.vehicle_id
        return Implies(And(ok(r), s2.vehicles.has(vid)), l1_instances(a.sim.vehicles, vid, s2.vehicles.get(vid).val()))

    def PU_FRAME(a, r):
        s2 = r[1].val()
        vid = a.self.vehicle_id
        return Implies(ok(r), And(wf(s2), others_unchanged(s2.vehicles, a.sim.vehicles, vid), s2.vehicles.has(vid),
                                  s2.sim_time == a.sim.sim_time,
                                  s2.sim_timestep_duration_seconds == a.sim.sim_timestep_duration_seconds,
                                  s2.applied_instructions == a.sim.applied_instructions))

    def JOINS_NOW(a, r):
        # C18 (first come first served is by time of joining): a vehicle that joins a charging queue in this update records
        # the current simulation time as its enqueue time
        s2 = r[1].val()
        vs2 = s2.vehicles.get(a.self.vehicle_id).val().vehicle_state
        joined = And(ok(r), s2.vehicles.has(a.self.vehicle_id), vs2.is_a("ChargeQueueing"), Not(as_union(a.self).is_a("ChargeQueueing")))
        return Implies(joined, vs2.as_a("ChargeQueueing").enqueue_time == a.sim.sim_time)

    def PU_PLUGS(a, r):
        # an update never changes plug counts, queue counters, prices or the set of stations (only balances / energy)
        return Implies(ok(r), same_state_maps(r[1].val().stations, a.sim.stations))

    for cname in FILE:
        s = R.spec(key(cname, "_perform_update"))
        s.opaque = True
        s.requires("wf", WF_PRE).requires("inv02", INV02_PRE).requires("current", CURRENT)
        s.ensures("shape", SHAPE, ("C09",))
        s.ensures("plug_counts_untouched", PU_PLUGS, ("C18", "C02"))
        s.ensures("resources_kept", lambda a, r: Implies(ok(r), resources_same(
            r[1].val().vehicles.get(a.self.vehicle_id).val().vehicle_state, as_union(a.self))), ("C18", "C02"))
        s.ensures("activity_kept", (lambda cname: lambda a, r: Implies(ok(r), Or(
            r[1].val().vehicles.get(a.self.vehicle_id).val().vehicle_state.is_a(cname),
            r[1].val().vehicles.get(a.self.vehicle_id).val().vehicle_state.is_a("OutOfService"))))(cname), ("C18", "C06"))
        s.ensures("place_in_queue_kept", lambda a, r: Implies(
            And(ok(r), as_union(a.self).is_a("ChargeQueueing"), r[1].val().vehicles.get(a.self.vehicle_id).val().vehicle_state.is_a("ChargeQueueing")),
            r[1].val().vehicles.get(a.self.vehicle_id).val().vehicle_state.as_a("ChargeQueueing").enqueue_time
            == as_union(a.self).as_a("ChargeQueueing").enqueue_time), ("C18",))
        s.ensures("counts_stay_matched", PU_POST, ("C02",))
        s.uses_lemma("L1 sum point-update (lemmas/L1.lean)", PU_L1)
        s.ensures("only_this_vehicle", PU_FRAME, ("C02", "C15", "C08"))
        s.unfold = {"inv02"}
        if cname == "ServicingPoolingTrip":
            s.assume_only("pooling state update: body out of reach")
        s = R.spec(key(cname, "update"))
        s.opaque = True
        s.requires("wf", WF_PRE).requires("inv02", INV02_PRE).requires("current", CURRENT)
        s.ensures("shape", SHAPE, ("C09",))
        s.ensures("step_ok", STEP_POST, ("C02", "C15", "C08"))
        s.ensures("joins_queue_at_current_time", JOINS_NOW, ("C18",))
        if cname == "ServicingPoolingTrip":
            s.assume_only("pooling state update: body out of reach")
    R.virtual("VehicleState", "_perform_update")
    R.virtual("VehicleState", "update")

    # ------------------------------------------------------------ step_vehicle
    SIM = world.class_ty("SimulationState")
    s = R.spec(SSO + "step_vehicle", ret=SIM)
    s.opaque = True
    s.requires("wf", lambda a: wf(a.s)).requires("inv02", lambda a: inv02(a.s))
    s.requires("current", lambda a: a.s.vehicles.get(a.vehicle.id) == some(a.vehicle))

    def sv_post(a, r):
        return And(inv02(r), wf(r), others_unchanged(r.vehicles, a.s.vehicles, a.vehicle.id), r.vehicles.has(a.vehicle.id),
                   r.sim_time == a.s.sim_time, r.sim_timestep_duration_seconds == a.s.sim_timestep_duration_seconds,
                   r.applied_instructions == a.s.applied_instructions)
    s.ensures("step_ok", sv_post, ("C02", "C15", "C08", "C09"))
    s.no_raise(("C02",))
