"""pick-up / drop-off, report builders, ServicingTrip.enter, pooling states (assumed), and the transition
function that recombines exit and enter deltas (C02 inductive step, C09 atomicity)."""
import z3
from pyvc.values import *
from pyvc.tys import *
from .common import *
from .simstate import inv08, same_except, KINDS, SO
from .statemachine import *
from . import statemachine as sm

SOPS = "nrel/hive/state/vehicle_state/servicing_ops.py::"
VEO = "nrel/hive/reporting/vehicle_event_ops.py::"
ESO = "nrel/hive/state/entity_state/entity_state_ops.py::"


def veh_frame(v2, v, changed):
    """vehicle v2 equals v except for the listed fields"""
    return And(*[getattr(v2, f) == getattr(v, f) for f, _ in v.ty.fields() if f not in changed])


def others_unchanged(V2, V, vid):
    o = bound(StrT, "o_fr")
    return forall([o], Implies(o != vid, V2.get(o) == V.get(o)))


def register(R):
    world = R.world

    # ------------------------------------------------------------ report builders
    TH = "nrel/hive/util/time_helpers.py::"
    s = R.spec(TH + "time_diff", arg_types={"start": IntT, "end": IntT}, ret=IntT)
    s.opaque = True
    # verified from the real body over the seconds model of datetime (datetime.combine(date.min, t) = t seconds, a timedelta =
    # whole seconds, timedelta.days = floor(seconds / 86400)): the waiting / travel time reported is the cyclic difference
    s.requires("times_of_day", lambda a: And(a.start >= 0, a.start < 86400, a.end >= 0, a.end < 86400))
    s.ensures("cyclic_difference", lambda a, r: And(r >= 0, r < 86400,
              Or(r == a.end - a.start, r == a.end - a.start + 86400)), ("C19",))
    s.no_raise(("C19",))
    s = R.spec(VEO + "report_pickup_request")
    s.opaque = True
    s.report("PICKUP_REQUEST_EVENT", lambda a: {
        "vehicle_id": a.vehicle.id, "request_id": a.request.id, "price": a.request.value,
        "request_time": a.request.departure_time})
    s.report_props = ("C19", "C03")
    s.no_raise(("C19", "C03"))
    # C19: the reported waiting time lies between zero and the cancellation timeout plus one step.
    # An admitted request has departure_time < sim_time (it enters in the first step that begins after its departure) and
    # is cancelled in the first step with sim_time >= departure + timeout, so while it can be picked up
    # 0 < sim_time - departure < timeout.
    W = "nrel/hive/reporting/vehicle_event_ops.py::report_pickup_request#wait"
    s2_ = R.spec(W, ret=None)
    T = fresh(IntT, "cancel_timeout")
    s2_.arg_types = {}
    s2_.requires("admitted_not_yet_cancelled", lambda a: And(
        a.request.departure_time >= 0, a.request.departure_time < a.next_sim.sim_time,
        a.next_sim.sim_time - a.request.departure_time < T, a.next_sim.sim_timestep_duration_seconds > 0,
        T + a.next_sim.sim_timestep_duration_seconds < 86400))
    s2_.report("PICKUP_REQUEST_EVENT", lambda a: {})
    s2_.report_props = ("C19",)
    s2_.report_clauses = [("waiting_time_between_zero_and_timeout_plus_step",
                           lambda a, f: And(f["wait_time_seconds"] >= 0,
                                            f["wait_time_seconds"] <= T + a.next_sim.sim_timestep_duration_seconds,
                                            f["pickup_time"] >= a.request.departure_time), ("C19",))]

    s = R.spec(VEO + "report_dropoff_request")
    s.opaque = True
    s.report("DROPOFF_REQUEST_EVENT", lambda a: {"vehicle_id": a.vehicle.id, "request_id": a.request.id,
                                                   "dropoff_time": a.sim.sim_time})
    s.report_props = ("C19", "C03")
    # raises IndexError for a request without passengers (excluded by Request.build's assert): not claimed no-raise

    # ------------------------------------------------------------ pooling: closing out a trip phase (C05, C03)
    def _late_pooling():
        k = SOPS + "complete_trip_phase"
        s = R.spec(k)
        s.requires("wf", WF_PRE)
        s.requires("vehicle_of_state", lambda a: And(a.sim.vehicles.has(a.vehicle.id), a.sim.vehicles.get(a.vehicle.id).val() == a.vehicle))
        TP = world.class_ty("TripPhase")

        def ctp_post(a, r):
            s2 = r[1].val()
            vid = a.vehicle.id
            req = a.sim.requests.get(a.active_trip.request_id).val()
            pickup = a.active_trip.trip_phase == Sym(TP, TP.const("PICKUP"))
            # a committed pooling pickup credits the fare of the boarded request to the vehicle and removes the request
            return Implies(And(ok(r), pickup), And(s2.vehicles.has(vid), a.sim.requests.has(a.active_trip.request_id),
                                                   s2.vehicles.get(vid).val().balance == a.vehicle.balance + req.value,
                                                   Not(s2.requests.has(a.active_trip.request_id))))
        s.ensures("pooling_pickup_credits_the_fare", ctp_post, ("C05", "C03"))
    R._late_pooling = _late_pooling

    # ------------------------------------------------------------ pick up / drop off (C03, C05)
    s = R.spec(SOPS + "pick_up_trip")
    s.opaque = True
    s.requires("wf", WF_PRE)

    def pu_post(a, r):
        s2 = r[1].val()
        veh = a.sim.vehicles.get(a.vehicle_id).val()
        req = a.sim.requests.get(a.request_id).val()
        return And(Or(ok(r), failed(r)),
                   Implies(ok(r), And(
                       a.sim.vehicles.has(a.vehicle_id), a.sim.requests.has(a.request_id),
                       s2.vehicles == a.sim.vehicles.set(a.vehicle_id, veh._replace(balance=veh.balance + req.value)),
                       s2.requests == a.sim.requests.delete(a.request_id),
                       same_except(s2, a.sim, ["vehicles", "requests", "r_locations", "r_search"]),
                       wf(s2))))
    s.ensures("fare_once_request_removed", pu_post, ("C03", "C05", "C02"))

    def pu_reports(a, r, reports):
        # exactly one PICKUP report iff the pickup is committed; none otherwise
        rt = world.class_ty("ReportType")
        pk = [x for x in reports if x.rtype is not None and isinstance(x.rtype, Sym)]
        if len(reports) == 0:
            return Not(ok(r))
        if len(reports) != 1 or not pk:
            return False
        rep = reports[0]
        req = a.sim.requests.get(a.request_id).val()
        return And(ok(r), rep.rtype == Sym(rt, rt.const("PICKUP_REQUEST_EVENT")),
                   rep.fields["vehicle_id"] == a.vehicle_id, rep.fields["request_id"] == a.request_id,
                   rep.fields["price"] == req.value)
    s.ensures("reported_iff_committed", pu_reports, ("C03", "C19"))
    s.files(lambda a, r: [(ok(r), "PICKUP_REQUEST_EVENT", {
        "vehicle_id": a.vehicle_id, "request_id": a.request_id,
        "price": a.sim.requests.get(a.request_id).val().value})])
    s.no_raise(("C03",))

    s = R.spec(SOPS + "drop_off_trip")
    s.opaque = True
    s.requires("wf", WF_PRE)

    def do_post(a, r):
        veh = a.sim.vehicles.get(a.vehicle_id).val()
        i = bound(IntT, "i_do")
        p = Sym(a.request.passengers.ty.elem, a.request.passengers.e[i.e])
        all_there = forall([i], Implies(And(i >= 0, i < a.request.passengers.len()), p.destination == geoid(veh)))
        return And(Or(ok(r), failed(r)),
                   Implies(ok(r), And(a.sim.vehicles.has(a.vehicle_id), r[1].val() == a.sim, all_there)))
    s.ensures("at_destination_state_unchanged", do_post, ("C03", "C07"))

    def do_reports(a, r, reports):
        rt = world.class_ty("ReportType")
        if len(reports) == 0:
            return Not(ok(r))
        if len(reports) != 1:
            return False
        rep = reports[0]
        return And(ok(r), rep.rtype == Sym(rt, rt.const("DROPOFF_REQUEST_EVENT")),
                   rep.fields["vehicle_id"] == a.vehicle_id, rep.fields["request_id"] == a.request.id)
    s.ensures("reported_iff_committed", do_reports, ("C03", "C19"))
    s.files(lambda a, r: [(ok(r), "DROPOFF_REQUEST_EVENT", {"vehicle_id": a.vehicle_id, "request_id": a.request.id})])

    # ------------------------------------------------------------ ServicingTrip.enter
    s = R.spec(key("ServicingTrip", "enter"))
    s.opaque = True
    s.requires("wf", WF_PRE)

    def st_parts(a, r):
        s2 = r[1].val()
        vid = a.self.vehicle_id
        veh = a.sim.vehicles.get(vid).val()
        rid = a.self.request.id
        req = a.sim.requests.get(rid).val()
        n = s2.vehicles.get(vid).val().vehicle_state
        return {
            "access": grants(a.self.request.membership, veh.membership),                                   # C10
            "location": And(route_ok(a.self.route, geoid(req), req.destination_position.geoid),            # C07
                            Implies(a.self.route.len() > 0, geoid(veh) == geoid(req))),                     # starts at the origin
            "resources": And(
                a.sim.vehicles.has(vid), a.sim.requests.has(rid),
                same_up_to_instance(n, a.self, "ServicingTrip"),
                veh.vehicle_state.is_a("DispatchTrip"),
                s2.vehicles == a.sim.vehicles.set(vid, veh._replace(balance=veh.balance + req.value, vehicle_state=n)),
                s2.requests == a.sim.requests.delete(rid),
                same_except(s2, a.sim, ["vehicles", "requests", "r_locations", "r_search"]))}
    for g, props in (("resources", ("C02", "C03", "C09")), ("location", ("C07",)), ("access", ("C10",))):
        s.ensures(f"enter_{g}", (lambda g: lambda a, r: Implies(ok(r), st_parts(a, r)[g]))(g), props)
    s.ensures("wf_kept", WF_KEPT, ("C08",))
    s.ensures("shape", SHAPE, ("C09",))
    s.ensures("instance", E_INST, ("C09",))
    s.no_raise(("C02",))

    # ------------------------------------------------------------ pooling states: assumed contracts
    # bodies use zip(*plan) / reduce over a symbolic plan: out of reach for now; their effect on the C02 counters is nil
    for cname in ("DispatchPoolingTrip", "ServicingPoolingTrip"):
        s = R.spec(key(cname, "exit"), arg_types={"next_state": VST()})
        s.opaque = True
        if cname == "ServicingPoolingTrip":
            # verified from its body: leaves the state untouched, and lets the vehicle go only when the plan is finished or
            # the pooling trip is being re-planned (next activity DispatchPoolingTrip) -- C03 for pooled passengers
            s.ensures("state_untouched", lambda a, r: Implies(ok(r), r[1].val() == a.sim), ("C03", "C02", "C09"))
            s.ensures("no_diversion_unless_replanned", lambda a, r: And(r[0].is_none(), Iff(
                r[1].is_some(), Or(a.self.trip_plan.len() == 0, a.next_state.is_a("DispatchPoolingTrip")))), ("C03",))
            s.no_raise(("C03",))
        else:
            # DispatchPoolingTrip.exit is verified from its body (contracts/pooling.py: modify_vehicle_assignment); with an
            # empty plan the body raises at `req_ids, _ = tuple(zip(*plan))` -- enter refuses empty plans, no_raise not claimed
            def dp_exit_records(a, r):
                i = bound(IntT, "i_dpx")
                plan = a.self.trip_plan
                rid = Sym(plan.ty.elem, plan.e[i.e])[0]
                return Implies(ok(r), forall([i], Implies(And(i >= 0, i < plan.len(), a.sim.requests.has(rid)), And(
                    r[1].val().requests.has(rid), r[1].val().requests.get(rid).val().dispatched_vehicle.is_none()))))
            s.ensures("releases_every_request_of_the_plan", dp_exit_records, ("C17",))
            s.ensures("never_refuses", lambda a, r: Or(ok(r), failed(r)), ("C17", "C09"))
        s.requires("wf", WF_PRE)
        s.ensures("shape", SHAPE)
        s.ensures("frame", lambda a, r: Implies(ok(r), And(
            same_except(r[1].val(), a.sim, ["requests"]), wf(r[1].val()))))
        s = R.spec(key(cname, "enter"))
        s.opaque = True
        if cname == "ServicingPoolingTrip":
            def sp_enter_pickup(a, r):
                # verified from the body: entered only from DispatchPoolingTrip; the first request of the plan is picked up --
                # it was waiting, is removed from the waiting set, and its fare is credited to this vehicle, once
                plan = a.self.trip_plan
                rid = plan[0][0]
                veh = a.sim.vehicles.get(a.self.vehicle_id).val()
                s2 = r[1].val()
                return Implies(ok(r), And(plan.len() > 0, veh.vehicle_state.is_a("DispatchPoolingTrip"),
                                          a.sim.requests.has(rid), Not(s2.requests.has(rid)),
                                          s2.vehicles.get(a.self.vehicle_id).val().balance == veh.balance + a.sim.requests.get(rid).val().value))
            s.ensures("first_request_picked_up_fare_credited_once", sp_enter_pickup, ("C03", "C05"))
        else:
            def dp_enter(a, r):
                # verified from the body: every request of the plan is waiting, admits this vehicle (C10) and carries this
                # vehicle's record afterwards (C17); the route leads from the vehicle to the first request (C07)
                i = bound(IntT, "i_dpe")
                plan = a.self.trip_plan
                rid = Sym(plan.ty.elem, plan.e[i.e])[0]
                veh = a.sim.vehicles.get(a.self.vehicle_id).val()
                first = a.sim.requests.get(plan[0][0]).val()
                s2 = r[1].val()
                return {"access": forall([i], Implies(And(i >= 0, i < plan.len()), And(
                            a.sim.requests.has(rid), grants(a.sim.requests.get(rid).val().membership, veh.membership)))),
                        "record": forall([i], Implies(And(i >= 0, i < plan.len()), And(
                            s2.requests.has(rid), s2.requests.get(rid).val().dispatched_vehicle == some(a.self.vehicle_id)))),
                        "location": And(plan.len() > 0, a.sim.requests.has(plan[0][0]),
                                        route_ok(a.self.route, geoid(veh), geoid(first)))}
            for grp, props in (("access", ("C10",)), ("record", ("C17",)), ("location", ("C07",))):
                s.ensures("enter_" + grp, (lambda grp: lambda a, r: Implies(ok(r), dp_enter(a, r)[grp]))(grp), props)
        s.requires("wf", WF_PRE)

        def pool_enter(a, r, cname=cname):
            s2 = r[1].val()
            vid = a.self.vehicle_id
            veh = a.sim.vehicles.get(vid).val()
            n = s2.vehicles.get(vid).val().vehicle_state
            return Implies(ok(r), And(
                a.sim.vehicles.has(vid), n.is_a(cname), n.as_a(cname).vehicle_id == vid,
                veh_frame(s2.vehicles.get(vid).val(), veh, ["vehicle_state", "balance"]),
                s2.vehicles == a.sim.vehicles.set(vid, s2.vehicles.get(vid).val()),
                same_except(s2, a.sim, ["vehicles", "requests", "r_locations", "r_search"]), wf(s2)))
        s.ensures("frame", pool_enter)
        s.ensures("shape", SHAPE)
        s.ensures("instance", E_INST)

    R.virtual("VehicleState", "exit")
    R.virtual("VehicleState", "enter")

    # ------------------------------------------------------------ transition_previous_to_next (C02 step, C09 atomicity)
    s = R.spec(ESO + "transition_previous_to_next", arg_types={"prev_state": VST(), "next_state": VST()})
    s.opaque = True
    s.requires("wf", WF_PRE)
    s.requires("inv02", lambda a: inv02(a.sim))
    s.unfold = {"inv02", "wfb"}
    s.requires("prev_is_current", lambda a: And(
        a.sim.vehicles.has(a.prev_state.vehicle_id),
        a.sim.vehicles.get(a.prev_state.vehicle_id).val().vehicle_state == a.prev_state,
        a.next_state.vehicle_id == a.prev_state.vehicle_id))

    s.ensures("all_or_nothing", lambda a, r: Or(ok(r), failed(r), nothing(r)), ("C09",))

    s.ensures("inv02_preserved", lambda a, r: Implies(ok(r), inv02(r[1].val())), ("C02",))
    s.uses_lemma("L1 sum point-update (lemmas/L1.lean)", lambda a, r: Implies(
        And(ok(r), r[1].val().vehicles.has(a.prev_state.vehicle_id)),
        l1_instances(a.sim.vehicles, a.prev_state.vehicle_id, r[1].val().vehicles.get(a.prev_state.vehicle_id).val())))

    def tr_frame(a, r):
        s2 = r[1].val()
        vid = a.prev_state.vehicle_id
        veh = a.sim.vehicles.get(vid).val()
        return Implies(ok(r), And(
            s2.vehicles.has(vid),
            s2.vehicles == a.sim.vehicles.set(vid, s2.vehicles.get(vid).val()),
            veh_frame(s2.vehicles.get(vid).val(), veh, ["vehicle_state", "balance"]),
            s2.vehicles.get(vid).val().vehicle_state.vehicle_id == vid,
            s2.sim_time == a.sim.sim_time,
            s2.sim_timestep_duration_seconds == a.sim.sim_timestep_duration_seconds,
            s2.applied_instructions == a.sim.applied_instructions,
            wf(s2)))
    s.ensures("only_this_vehicle", tr_frame, ("C09", "C02", "C15", "C08"))
    def structure_kept(a, r):
        # a transition changes counters only: no station or plug type appears / disappears, installed totals stay
        s_, c_ = bound(StrT, "s_sk"), bound(StrT, "c_sk")
        st1, st2 = a.sim.stations, r[1].val().stations
        return Implies(ok(r), forall([s_, c_], And(
            st2.has(s_) == st1.has(s_),
            Implies(st1.has(s_), And(st2.get(s_).val().state.has(c_) == st1.get(s_).val().state.has(c_),
                                     Implies(st1.get(s_).val().state.has(c_),
                                             st2.get(s_).val().state.get(c_).val().total_chargers == st1.get(s_).val().state.get(c_).val().total_chargers))))))
    s.ensures("structure_kept", structure_kept, ("C18", "C02"))

    def enters_requested(a, r):
        # the activity entered is the requested one (up to its instance tag), or ChargingStation for a DispatchStation
        # whose vehicle is already at the station
        new = r[1].val().vehicles.get(a.prev_state.vehicle_id).val().vehicle_state
        nxt = a.next_state
        parts = []
        for m in FILE:
            if m in ("DispatchPoolingTrip", "ServicingPoolingTrip"):
                parts.append(Implies(nxt.is_a(m), new.is_a(m)))
                continue
            same = same_up_to_instance(new, nxt.as_a(m), m)
            if m == "DispatchStation":
                d, c = nxt.as_a(m), new.as_a("ChargingStation")
                same = Or(same, And(new.is_a("ChargingStation"), c.station_id == d.station_id, c.charger_id == d.charger_id,
                                    c.vehicle_id == d.vehicle_id))
            parts.append(Implies(nxt.is_a(m), same))
        return Implies(ok(r), And(*parts))
    s.ensures("enters_requested_activity", enters_requested, ("C09", "C18"))
    s.ensures("committed_transition_is_visible", lambda a, r: Implies(
        And(ok(r), a.next_state.instance_id != a.prev_state.instance_id),
        r[1].val().vehicles.get(a.prev_state.vehicle_id).val().vehicle_state.instance_id != a.prev_state.instance_id), ("C09",))
    s.no_raise(("C09",))
    R._late_pooling()
