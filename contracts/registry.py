"""Assemble all sidecar contracts."""
import importlib
from pyvc.spec import SpecRegistry
from . import common

MODULES = ["leaf_station", "simstate", "statemachine", "servicing", "mechatronics", "updates", "drivers", "iteration", "stepping", "clock", "queueing", "roads", "dispatching", "timed_inputs", "osm", "reporting", "assignment", "readers", "pooling"]


def build(world, ex):
    R = SpecRegistry()
    R.world = world
    ex.specs = R
    common.bind_ufs(ex)
    for m in MODULES:
        mod = importlib.import_module(f"contracts.{m}")
        mod.register(R)
    ex.loop_specs = R.loop_specs
    return R
