"""C12: find_assignment — the cost table handed to scipy holds exactly cost_fn(assignees[i], targets[j]) and the row /
column indices scipy returns are mapped back to the ids of those very entities."""
import z3
from pyvc.values import *
from pyvc.tys import *
from .common import *
from .roads import at

AO = "nrel/hive/dispatcher/instruction_generator/assignment_ops.py::"
P = ("C12",)


def register(R):
    world = R.world
    ENT = AbstractTy("EntityABC")
    ENTS = SeqTy(ENT)
    COST = FuncTy("CostFn", [ENT, ENT], RealT)
    SOL = world.class_ty("AssignmentSolution")
    R.attr("EntityABC", "id", StrT)
    ent_id = iface("EntityABC", "id", StrT)
    ex = uf("__ex__")

    def cost(f, a, b):
        return ex.uf_apply("call_Fn_CostFn", [f, a, b], RealT)

    def cell(tb, i, j):
        i = i if isinstance(i, Sym) else lift(i)
        j = j if isinstance(j, Sym) else lift(j)
        return Sym(RealT, z3.Select(z3.Select(tb.e, i.e), j.e))

    def lsa(tb, n, m):
        return ex.uf_apply("lsa_rows", [tb, n, m], SeqTy(IntT)), ex.uf_apply("lsa_cols", [tb, n, m], SeqTy(IntT))

    def vmin(a, b):
        return Ite(a <= b, a, b)

    # ghost: total cost of the first k pairs scipy returned for table tb (defined by recursion on k)
    _T = NpArr2Ty(z3.IntVal(0), z3.IntVal(0)).sort
    _lsum = z3.Function("ghost_lsa_sum", _T, z3.IntSort(), z3.IntSort(), z3.IntSort(), z3.RealSort())

    def lsum(tb, n, m, k):
        k = k if isinstance(k, Sym) else lift(k)
        return Sym(RealT, _lsum(tb.e, n.e, m.e, k.e))

    def lsum_def(n, m):
        tb = Sym(NpArr2Ty(n.e, m.e), z3.Const("T_ls", _T))
        k = bound(IntT, "k_lsd")
        rows, cols = lsa(tb, n, m)
        return And(forall([tb], lsum(tb, n, m, 0) == 0),
                   forall([tb, k], Implies(And(k >= 0, k < rows.len()),
                                           lsum(tb, n, m, k + 1) == lsum(tb, n, m, k) + cell(tb, at(rows, k), at(cols, k)))))

    # scipy.optimize.linear_sum_assignment(table): min(n, m) pairs of distinct rows and distinct columns, in range
    # (that the pairing has minimum total cost is scipy's contract: assumed, stated in the evidence)
    def lsa_axioms(args, r):
        tb, n, m = args
        rows, cols = r
        k, l = bound(IntT, "k_ls"), bound(IntT, "l_ls")
        return [rows.len() == vmin(n, m), cols.len() == vmin(n, m),
                forall([k], Implies(And(k >= 0, k < rows.len()), And(at(rows, k) >= 0, at(rows, k) < n, at(cols, k) >= 0, at(cols, k) < m))),
                forall([k, l], Implies(And(k >= 0, k < l, l < rows.len()), And(at(rows, k) != at(rows, l), at(cols, k) != at(cols, l))))]
    R.lib("scipy.optimize.linear_sum_assignment", lsa_axioms)

    # the cost the built-in dispatcher minimises is the h3 grid distance between the two entities
    R.attr("EntityABC", "geoid", StrT)
    hk = AO + "h3_distance_cost"
    hs = R.spec(hk, arg_types={"a": ENT, "b": ENT}, ret=RealT)
    hs.ensures("is_the_grid_distance", lambda a, r: r == uf("h3.h3_distance")(iface("EntityABC", "geoid", StrT)(a.a), iface("EntityABC", "geoid", StrT)(a.b)), P)

    key = AO + "find_assignment"
    s = R.spec(key, arg_types={"assignees": ENTS, "targets": ENTS, "cost_fn": COST}, ret=SOL)
    inf, ninf = Sym(RealT, POS_INF), Sym(RealT, NEG_INF)

    def finite_costs(a):
        x, y = bound(ENT, "x_fc"), bound(ENT, "y_fc")
        return forall([x, y], And(cost(a.cost_fn, x, y) > ninf, cost(a.cost_fn, x, y) < inf))
    s.requires("finite_costs", finite_costs)
    s.ghost_definition("lsa_sum", lambda a: lsum_def(a.assignees.len(), a.targets.len()))

    def table_filled(tb, a, upto_i):
        i, j = bound(IntT, "i_tf"), bound(IntT, "j_tf")
        return forall([i, j], Implies(And(i >= 0, i < upto_i, j >= 0, j < a.targets.len()),
                                      cell(tb, i, j) == cost(a.cost_fn, at(a.assignees, i), at(a.targets, j))))

    def post(a, r):
        n, m = a.assignees.len(), a.targets.len()
        K = vmin(n, m)
        q = bound(IntT, "q_fa")
        tb = Sym(NpArr2Ty(n.e, m.e), z3.Const("T_fa", NpArr2Ty(n.e, m.e).sort))
        rows, cols = lsa(tb, n, m)
        mapped = forall([q], Implies(And(q >= 0, q < K), And(
            r.solution[q][0] == ent_id(at(a.assignees, at(rows, K - 1 - q))),
            r.solution[q][1] == ent_id(at(a.targets, at(cols, K - 1 - q))))))
        return And(Implies(Or(n == 0, m == 0), r.solution.len() == 0),
                   Implies(And(n > 0, m > 0), And(
                       r.solution.len() == K,
                       # the pairs are scipy's answer, mapped back to ids, for a table that holds exactly the costs
                       exists([tb], And(table_filled(tb, a, n), mapped, r.solution_cost == lsum(tb, n, m, K))))))
    s.ensures("pairs_are_the_assignment_of_the_exact_cost_table", post, P)
    s.no_raise(P)

    def ub_ok(ub):
        return And(ub >= ninf, ub < inf)

    def outer_inv(v, k, xs, env):
        return And(table_filled(v.table, env, k), ub_ok(v.upper_bound))
    R.loop(key, "for", 0, props=P, invariant=outer_inv, types={"upper_bound": RealT})

    def inner_inv(v, l, xs, env):
        j = bound(IntT, "j_in")
        i = env.i
        return And(table_filled(v.table, env, i), ub_ok(v.upper_bound), i >= 0, i < env.assignees.len(),
                   forall([j], Implies(And(j >= 0, j < l), cell(v.table, i, j) == cost(env.cost_fn, at(env.assignees, i), at(env.targets, j)))))
    R.loop(key, "for", 1, props=P, invariant=inner_inv, types={"upper_bound": RealT})

    def fold_inv(acc, k, xs, env):
        q = bound(IntT, "q_fi")
        n_, m_ = env.assignees.len(), env.targets.len()
        return And(acc.solution.len() == k, acc.solution_cost == lsum(env.table, n_, m_, k), forall([q], Implies(And(q >= 0, q < k), And(
            acc.solution[q][0] == ent_id(at(env.assignees, at(env.rows, k - 1 - q))),
            acc.solution[q][1] == ent_id(at(env.targets, at(env.cols, k - 1 - q)))))))
    R.loop(key, "reduce", 0, acc_type=SOL, props=P, invariant=fold_inv)
