"""Deterministic iteration helpers (C01), entity listings, and the loops of a step that fold over them."""
import z3
from pyvc.values import *
from pyvc.tys import *
from .common import *
from .statemachine import wf, WF_PRE, ids_ok, inv02
from .servicing import others_unchanged

SS = "nrel/hive/state/simulation_state/simulation_state.py::SimulationState."
SSO = "nrel/hive/state/simulation_state/update/step_simulation_ops.py::"
DO = "nrel/hive/util/dict_ops.py::DictOps."


def at(seq, i):
    return Sym(seq.ty.elem, seq.e[i.e if isinstance(i, Sym) else i])


def listing_ok(r, m):
    """r lists entries of the entity map m, in strictly increasing id order (hence without repetition)"""
    i, j = bound(IntT, "i_ls"), bound(IntT, "j_ls")
    return And(forall([i], Implies(And(i >= 0, i < r.len()), m.get(at(r, i).id) == some(at(r, i)))),
               forall([i, j], Implies(And(i >= 0, i < j, j < r.len()), at(r, i).id < at(r, j).id)))


def register(R):
    world = R.world
    for ent, field in (("vehicles", "get_vehicles"), ("requests", "get_requests"), ("stations", "get_stations"), ("bases", "get_bases")):
        s = R.spec(SS + field)
        s.opaque = True
        s.requires("plain_listing", lambda a: And(v_is_none(a.filter_function), v_is_none(a.sort_key)))
        s.requires("ids", lambda a: ids_ok(a.self))
        s.ensures("entries_in_id_order", (lambda ent: lambda a, r: listing_ok(r, getattr(a.self, ent)))(ent), ("C01", "C20", "C02"))
        s.ensures("all_listed", (lambda ent: lambda a, r: r.len() == Sym(IntT, card(getattr(a.self, ent))))(ent), ("C01",))

    # ------------------------------------------------------------ perform_driver_state_updates (C20)
    SIM = world.class_ty("SimulationState")
    k = SSO + "perform_driver_state_updates"
    s = R.spec(k, ret=SIM)
    s.opaque = True
    s.requires("wf", lambda a: wf(a.simulation_state)).requires("inv02", lambda a: inv02(a.simulation_state))

    def pds_post(a, r):
        return And(wf(r), inv02(r), r.sim_time == a.simulation_state.sim_time,
                   r.sim_timestep_duration_seconds == a.simulation_state.sim_timestep_duration_seconds,
                   r.stations == a.simulation_state.stations, r.bases == a.simulation_state.bases,
                   r.requests == a.simulation_state.requests,
                   r.applied_instructions == a.simulation_state.applied_instructions)
    s.ensures("frame", pds_post, ("C20", "C02", "C15", "C08"))
    s.no_raise(("C20",))

    def fold_inv(acc, i, xs, env):
        j = bound(IntT, "j_fd")
        s0 = env.simulation_state
        return And(wf(acc), inv02(acc),
                   acc.sim_time == s0.sim_time, acc.sim_timestep_duration_seconds == s0.sim_timestep_duration_seconds,
                   acc.stations == s0.stations, acc.bases == s0.bases, acc.requests == s0.requests,
                   acc.applied_instructions == s0.applied_instructions,
                   forall([j], Implies(And(j >= i, j < xs.len()), acc.vehicles.get(at(xs, j).id) == some(at(xs, j)))),
                   listing_ok(xs, s0.vehicles))
    R.loop(k, "reduce", 0, acc_type=SIM, props=("C20", "C02"), invariant=fold_inv)

    # ------------------------------------------------------------ perform_vehicle_state_updates (C02 top, C18 order)
    VEH = world.class_ty("Vehicle")
    VSEQ = SeqTy(VEH)
    pk = SSO + "perform_vehicle_state_updates"
    sk = pk + "._sort_by_vehicle_state"

    def queueing(v):
        return v.vehicle_state.is_a("ChargeQueueing")

    def qkey_lt(v1, v2):
        """(enqueue_time, id) of v1 strictly before that of v2"""
        t1 = v1.vehicle_state.as_a("ChargeQueueing").enqueue_time
        t2 = v2.vehicle_state.as_a("ChargeQueueing").enqueue_time
        return Or(t1 < t2, And(t1 == t2, v1.id < v2.id))

    s = R.spec(sk, arg_types={"vs": VSEQ}, ret=VSEQ)
    s.opaque = True
    s.outer_arg_types = {}
    s.requires("distinct_ids", lambda a: forall([bound(IntT, "i_d"), bound(IntT, "j_d")], Implies(
        And(bound(IntT, "i_d") >= 0, bound(IntT, "i_d") < bound(IntT, "j_d"), bound(IntT, "j_d") < a.vs.len()),
        at(a.vs, bound(IntT, "i_d")).id != at(a.vs, bound(IntT, "j_d")).id)))

    def sort_post(a, r):
        i, j = bound(IntT, "i_so"), bound(IntT, "j_so")
        return And(
            r.len() == a.vs.len(),
            # same vehicles (each result element is an input element; ids stay pairwise distinct)
            forall([i], Implies(And(i >= 0, i < r.len()), seq_mem(a.vs, at(r, i)))),
            forall([i, j], Implies(And(i >= 0, i < j, j < r.len()), at(r, i).id != at(r, j).id)))
    s.ensures("same_vehicles", sort_post, ("C01", "C02", "C18"))

    def order_post(a, r):
        i, j = bound(IntT, "i_or"), bound(IntT, "j_or")
        return forall([i, j], Implies(And(i >= 0, i < j, j < r.len()), And(
            # queueing vehicles are stepped after all others (so plugs freed in this step are visible to the queue) ...
            Implies(queueing(at(r, i)), queueing(at(r, j))),
            # ... in order of arrival in the queue, ties broken by vehicle id (C18), the others by id (C01)
            Implies(And(queueing(at(r, i)), queueing(at(r, j))), qkey_lt(at(r, i), at(r, j))),
            Implies(And(Not(queueing(at(r, i))), Not(queueing(at(r, j)))), at(r, i).id < at(r, j).id))))
    s.ensures("queue_last_fifo", order_post, ("C18", "C01"))
    s.no_raise(("C18",))

    s = R.spec(pk, ret=SIM)
    s.opaque = True
    s.requires("wf", lambda a: wf(a.simulation_state)).requires("inv02", lambda a: inv02(a.simulation_state))

    def pvs_post(a, r):
        return And(wf(r), inv02(r), r.sim_time == a.simulation_state.sim_time,
                   r.sim_timestep_duration_seconds == a.simulation_state.sim_timestep_duration_seconds,
                   r.applied_instructions == a.simulation_state.applied_instructions)
    s.ensures("counts_matched_after_all_updates", pvs_post, ("C02", "C15", "C08"))
    s.no_raise(("C02",))

    def pvs_inv(v, i, xs, v0):
        j, k2 = bound(IntT, "j_pv"), bound(IntT, "k_pv")
        s0 = v0.simulation_state
        sc = v.simulation_state
        return And(wf(sc), inv02(sc), sc.sim_time == s0.sim_time,
                   sc.sim_timestep_duration_seconds == s0.sim_timestep_duration_seconds,
                   sc.applied_instructions == s0.applied_instructions,
                   # vehicles not yet stepped are exactly as they were when the tuple was captured
                   forall([j], Implies(And(j >= i, j < xs.len()), sc.vehicles.get(at(xs, j).id) == some(at(xs, j)))),
                   forall([j, k2], Implies(And(j >= 0, j < k2, k2 < xs.len()), at(xs, j).id != at(xs, k2).id)))
    R.loop(pk, "for", 0, props=("C02",), invariant=pvs_inv)

    # ------------------------------------------------------------ tick (C15)
    s = R.spec("nrel/hive/state/simulation_state/simulation_state_ops.py::tick", ret=SIM)
    s.ensures("advances_by_exactly_one_step", lambda a, r: r == a.sim._replace(sim_time=a.sim.sim_time + a.sim.sim_timestep_duration_seconds), ("C15",))
    s.no_raise(("C15",))
