"""Deterministic iteration helpers (C01), entity listings, and the loops of a step that fold over them."""
import z3
from pyvc.values import *
from pyvc.tys import *
from .common import *
from .statemachine import wf, WF_PRE, ids_ok, inv02
from .servicing import others_unchanged

SS = "nrel/hive/state/simulation_state/simulation_state.py::SimulationState."
SSO = "nrel/hive/state/simulation_state/update/step_simulation_ops.py::"
DO = "nrel/hive/util/dict_ops.py::DictOps."


def at(seq, i):
    return Sym(seq.ty.elem, seq.e[i.e if isinstance(i, Sym) else i])


def listing_ok(r, m):
    """r lists entries of the entity map m, in strictly increasing id order (hence without repetition)"""
    i, j = bound(IntT, "i_ls"), bound(IntT, "j_ls")
    return And(forall([i], Implies(And(i >= 0, i < r.len()), m.get(at(r, i).id) == some(at(r, i)))),
               forall([i, j], Implies(And(i >= 0, i < j, j < r.len()), at(r, i).id < at(r, j).id)))


def register(R):
    world = R.world
    for ent, field in (("vehicles", "get_vehicles"), ("requests", "get_requests"), ("stations", "get_stations"), ("bases", "get_bases")):
        s = R.spec(SS + field)
        s.opaque = True
        s.requires("plain_listing", lambda a: And(a.filter_function is None, a.sort_key is None))
        s.requires("ids", lambda a: ids_ok(a.self))
        s.ensures("entries_in_id_order", (lambda ent: lambda a, r: listing_ok(r, getattr(a.self, ent)))(ent), ("C01", "C20", "C02"))
        s.ensures("all_listed", (lambda ent: lambda a, r: r.len() == Sym(IntT, card(getattr(a.self, ent))))(ent), ("C01",))

    # ------------------------------------------------------------ perform_driver_state_updates (C20)
    SIM = world.class_ty("SimulationState")
    k = SSO + "perform_driver_state_updates"
    s = R.spec(k, ret=SIM)
    s.opaque = True
    s.requires("wf", lambda a: wf(a.simulation_state)).requires("inv02", lambda a: inv02(a.simulation_state))

    def pds_post(a, r):
        return And(wf(r), inv02(r), r.sim_time == a.simulation_state.sim_time,
                   r.sim_timestep_duration_seconds == a.simulation_state.sim_timestep_duration_seconds,
                   r.stations == a.simulation_state.stations, r.bases == a.simulation_state.bases,
                   r.requests == a.simulation_state.requests,
                   r.applied_instructions == a.simulation_state.applied_instructions)
    s.ensures("frame", pds_post, ("C20", "C02", "C15", "C08"))
    s.no_raise(("C20",))

    def fold_inv(acc, i, xs, env):
        j = bound(IntT, "j_fd")
        s0 = env.simulation_state
        return And(wf(acc), inv02(acc),
                   acc.sim_time == s0.sim_time, acc.sim_timestep_duration_seconds == s0.sim_timestep_duration_seconds,
                   acc.stations == s0.stations, acc.bases == s0.bases, acc.requests == s0.requests,
                   acc.applied_instructions == s0.applied_instructions,
                   forall([j], Implies(And(j >= i, j < xs.len()), acc.vehicles.get(at(xs, j).id) == some(at(xs, j)))),
                   listing_ok(xs, s0.vehicles))
    R.loop(k, "reduce", 0, acc_type=SIM, props=("C20", "C02"), invariant=fold_inv)
