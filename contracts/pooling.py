"""Pooling side of dispatching (C10, C17, C09, C08): the helpers of dispatch_ops and DispatchPoolingTrip.enter / exit.
Until this module existed the pooling activities had assumed contracts only (bodies use zip(*plan), all(map(..)), reduce)."""
import z3
from pyvc.values import *
from pyvc.tys import *
from .common import *
from .simstate import inv08, same_except
from .statemachine import *
from .iteration import at

DOPS = "nrel/hive/state/vehicle_state/dispatch_ops.py::"


def all_ids(reqs, f, name="i_pl"):
    i = bound(IntT, name)
    return forall([i], Implies(And(i >= 0, i < reqs.len()), f(at(reqs, i))))


def record_of(requests, rid):
    return requests.get(rid).val().dispatched_vehicle


def register(R):
    world = R.world
    SIM = world.class_ty("SimulationState")
    VEH = world.class_ty("Vehicle")
    IDS = SeqTy(StrT)

    # ------------------------------------------------------------ every request of the plan exists and admits the vehicle
    s = R.spec(DOPS + "requests_exist_and_match_membership", arg_types={"sim": SIM, "vehicle": VEH, "requests": IDS}, ret=BoolT)
    s.opaque = True

    def rem_post(a, r):
        # C10: true exactly when every request of the plan is waiting and *the request* grants access to *the vehicle*
        return Iff(r, all_ids(a.requests, lambda rid: And(
            a.sim.requests.has(rid), grants(a.sim.requests.get(rid).val().membership, a.vehicle.membership))))
    s.ensures("all_requests_wait_and_admit_the_vehicle", rem_post, ("C10",))
    s.no_raise(("C10",))

    # ------------------------------------------------------------ C05: a station's energy ledger covers every energy type
    # charge() books dispensed energy on the keys the ledger already has (tick_energy_dispensed folds over its keys), so
    # `energy gained = energy dispensed` needs every station to be built with a ledger entry for every energy type
    STN_K = "nrel/hive/model/station/station.py::Station."
    ET = world.enum_ty("EnergyType") if hasattr(world, "enum_ty") else None
    s = R.spec(STN_K + "build")
    s.opaque = True

    def ledger_total(a, r):
        ET_ = r.energy_dispensed.ty.key
        return And(*[And(r.energy_dispensed.has(Sym(ET_, ET_.const(m))), r.energy_dispensed.get(Sym(ET_, ET_.const(m))).val() == 0)
                     for m in ET_.members])
    s.ensures("ledger_has_every_energy_type_at_zero", ledger_total, ("C05",))
    CS = world.class_ty("ChargerState")
    R.loop(STN_K + "build", "reduce", 0, acc_type=TupleTy([OptTy(ExcT), OptTy(MapTy(StrT, CS))]), props=("C05",),
           invariant=lambda acc, i, xs, env: Or(And(acc[0].is_none(), acc[1].is_some()), And(acc[0].is_some(), acc[1].is_none())))

    s = R.spec(STN_K + "append_chargers")
    s.opaque = True
    s.ensures("ledger_untouched", lambda a, r: Implies(ok(r), And(r[1].val().energy_dispensed == a.self.energy_dispensed,
                                                                   r[1].val().balance == a.self.balance)), ("C05",))

    # ------------------------------------------------------------ C17 / C08 / C02: (un)assigning the vehicle on every request of a plan
    mk = DOPS + "modify_vehicle_assignment"
    s = R.spec(mk, arg_types={"sim": SIM, "vehicle_id": StrT, "requests": IDS, "unassign": BoolT})
    s.opaque = True
    s.requires("wf", WF_PRE)

    def new_record(req, vid, t, unassign):
        return Ite(unassign, req._replace(dispatched_vehicle=Sym(OptTy(StrT), OptTy(StrT).none()),
                                          dispatched_vehicle_time=Sym(OptTy(IntT), OptTy(IntT).none())),
                   req._replace(dispatched_vehicle=some(vid), dispatched_vehicle_time=some(t)))

    def assigned_upto(s2, a, i, xs):
        """the requests of xs[0..i) that are waiting carry the new record, every other request is untouched"""
        k, j = bound(StrT, "k_mva"), bound(IntT, "j_mva")
        seen = exists([j], And(j >= 0, j < i, at(xs, j) == k))
        old = a.sim.requests.get(k)
        return And(same_except(s2, a.sim, ["requests"]), wf(s2),
                   forall([k], s2.requests.has(k) == a.sim.requests.has(k)),
                   forall([k], Implies(old.is_some(), s2.requests.get(k) == Ite(
                       seen, some(new_record(old.val(), a.vehicle_id, a.sim.sim_time, a.unassign)), old))))

    def mva_post(a, r):
        n = a.requests.len()
        return And(Or(ok(r), failed(r)), Implies(ok(r), assigned_upto(r[1].val(), a, n, a.requests)))
    s.ensures("every_waiting_request_of_the_plan_and_nothing_else", mva_post, ("C17", "C08", "C02", "C09"))
    s.no_raise(("C17",))

    def mva_inv(acc, i, xs, env):
        return Or(failed(acc), And(ok(acc), assigned_upto(acc[1].val(), env, i, xs)))
    R.loop(mk, "reduce", 0, acc_type=TupleTy([OptTy(ExcT), OptTy(SIM)]), props=("C17", "C08", "C02", "C09"), invariant=mva_inv)

    # ------------------------------------------------------------ routes between the stops of a plan: assumed (router interface)
    LT = world.class_ty("LinkTraversal")
    s = R.spec(DOPS + "create_routes", arg_types={"sim": SIM}, ret=SeqTy(SeqTy(LT)))
    s.opaque = True
    s.assume_only("one route per consecutive pair of plan stops, each asked from sim.road_network.route (router interface, C13); "
                  "body: map of a forking closure over iterators.sliding(plan, 2), out of reach")
