"""Shared spec vocabulary (DESIGN §3): result shapes, spec functions, well-formedness, invariants."""
import z3
from pyvc.values import *
from pyvc.tys import *


# ---- ErrorOr results r = (err, val)
def ok(r):
    return And(r[0].is_none(), r[1].is_some())


def failed(r):
    return And(r[0].is_some(), r[1].is_none())


def nothing(r):
    return And(r[0].is_none(), r[1].is_none())


# ---- returns.result values
def is_success(r):
    return mkbool(r.ty.is_success(r.e))


def is_failure(r):
    return mkbool(r.ty.is_failure(r.e))


def unwrap(r):
    return Sym(r.ty.elem, r.ty.unwrap(r.e))


def geoid(ent):
    return ent.position.geoid


def forall(vars_, body):
    return mkbool(z3.ForAll([v.e for v in vars_], z3_bool(body)))


def exists(vars_, body):
    return mkbool(z3.Exists([v.e for v in vars_], z3_bool(body)))


def bound(ty, name):
    return Sym(ty, z3.Const(name, ty.sort))


# ---- set-valued index maps  Map[GeoId, FrozenSet[Id]]
def member(idx, g, i):
    """i in idx[g]  (absent cell = empty)"""
    cell = idx.get(g)
    return And(cell.is_some(), cell.val().has(i))


def h3_parent(ex_or_none, g, res):
    """the uninterpreted h3.h3_to_parent used by the executor (same UF symbol)"""
    return _UF["h3.h3_to_parent"](g, res)


_UF = {}


def bind_ufs(ex):
    """give spec functions access to the executor's UF symbols for library functions"""
    def mk(name, ret):
        def f(*args):
            return ex.uf_apply(name, list(args), ret)
        return f
    from pyvc.builtins import LIB_UF
    for name, ret in LIB_UF.items():
        _UF[name] = mk(name, ret)
    _UF["__ex__"] = ex


def uf(name):
    return _UF[name]


def iface(base, method, ret):
    ex = _UF["__ex__"]
    def f(recv, *args):
        return ex.uf_apply(f"{base}.{method}", [recv] + list(args), ret)
    return f


def opt_or(x, default):
    """`x if x else default` for an optional value (python None, Optional sym or plain sym)"""
    if x is None:
        return default
    if isinstance(x, Sym) and isinstance(x.ty, OptTy):
        return Ite(truth(x), x.val(), default)
    return Ite(truth(x), x, default)


# ---------------------------------------------------------------- opaque predicates (hide / reveal)
UNFOLD = set()     # names of predicates whose definition is revealed while evaluating the clauses of the
                   # function under verification (set by the driver from Spec.unfold); callee contracts seen at
                   # call sites always use the opaque atom
_PRED_FNS = {}


def pred(name, defn, *args):
    """opaque predicate `name(args)`: an uninterpreted Bool atom over the argument values, or its definition
    when revealed.  Hiding keeps VCs of the upper layers small (DESIGN: opaque / reveal)."""
    zs = [a.e if isinstance(a, Sym) else lift(a).e for a in args]
    key = (name, tuple(str(z.sort()) for z in zs))
    if key not in _PRED_FNS:
        _PRED_FNS[key] = z3.Function(f"P_{name}_{len(_PRED_FNS)}", *[z.sort() for z in zs], z3.BoolSort())
    atom = Sym(BoolT, _PRED_FNS[key](*zs))
    if (name in UNFOLD or "*" in UNFOLD or (name in DEFAULT_REVEALED and UNFOLD_ACTIVE[0])) and name not in HIDE:
        d = defn(*args)
        # definitional link at these arguments (conservative: the atom *is* the definition)
        LINKS.append(z3_bool(atom) == z3_bool(d))
        return d
    return atom


LINKS = []
DEFAULT_REVEALED = {"ids"}     # cheap predicates revealed everywhere unless the function under verification hides them
HIDE = set()
UNFOLD_ACTIVE = [True]


def take_links():
    out = list(LINKS)
    del LINKS[:]
    return out


def reveal_at(name, defn, *args):
    """the definitional link  atom(args) == definition(args)  as a formula (to reveal a hidden predicate at chosen
    arguments inside a proof; conservative: the atom *is* its definition)"""
    zs = [a.e if isinstance(a, Sym) else lift(a).e for a in args]
    key = (name, tuple(str(z.sort()) for z in zs))
    if key not in _PRED_FNS:
        _PRED_FNS[key] = z3.Function(f"P_{name}_{len(_PRED_FNS)}", *[z.sort() for z in zs], z3.BoolSort())
    atom = _PRED_FNS[key](*zs)
    return mkbool(atom == z3_bool(defn(*args)))
