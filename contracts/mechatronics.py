"""C04: energy stays physical and accounted for — contracts on the shipped mechatronics (BEV, ICE, TabularPowercurve)
and the interface contract every MechatronicsInterface implementation is assumed (and, for BEV/ICE, proved) to meet."""
import z3
from pyvc.values import *
from pyvc.tys import *
from .common import *

MECH = "nrel/hive/model/vehicle/mechatronics/"
P = ("C04",)


def E(world, name):
    t = world.class_ty("EnergyType")
    return Sym(t, t.const(name))


def veh_frame(v2, v, changed):
    return And(*[getattr(v2, f) == getattr(v, f) for f, _ in v.ty.fields() if f not in changed])


def register(R):
    world = R.world
    ELEC, GAS = E(world, "ELECTRIC"), E(world, "GASOLINE")
    Unit = world.class_ty("Unit")

    def U(n):
        return Sym(Unit, Unit.const(n))

    def keys_ok(v, k):
        return And(v.energy.has(k), v.energy_expended.has(k), v.energy_gained.has(k))

    def en(v, k):
        return v.energy.get(k).val()

    # ---------------------------------------------------------------- interface contracts (assumed for any implementation)
    def cost_nonneg(recv, args, r):
        return r >= 0
    R.iface("Powertrain", "energy_cost", cost_nonneg)

    def pc_charge(recv, args, r):
        # Powercurve.charge(start_soc, full_soc, power_kw, duration_seconds) -> (energy, seconds):
        # never lowers the level, never adds more than the plug delivers in the duration (C04)
        start, full, kw, dur = args
        e2 = Sym(RealT, r.ty.get(r.e, 0))
        return And(e2 >= start, Implies(And(kw >= 0, dur >= 0), (e2 - start) * 3600 <= kw * dur))
    R.iface("Powercurve", "charge", pc_charge)

    # ---------------------------------------------------------------- shared shape of consume / idle / add_energy
    def consume_like(k, cap_field, cost_of):
        """result energy = max(0, e - cost); expended grows by exactly e - e'; nothing else changes"""
        def post(a, r):
            e0 = en(a.vehicle, k)
            cost = cost_of(a)
            e1 = r.energy.get(k).val()
            return And(r.energy.has(k), r.energy_expended.has(k),
                       e1 == Ite(e0 - cost >= 0, e0 - cost, 0),                                   # clamp at empty
                       e1 >= 0, e1 <= e0,
                       r.energy_expended.get(k).val() == a.vehicle.energy_expended.get(k).val() + (e0 - e1),   # booked = actually taken
                       r.energy_gained == a.vehicle.energy_gained,
                       Implies(And(cost > 0, e0 > 0), e1 < e0),                                  # strictly positive consumption
                       veh_frame(r, a.vehicle, ["energy", "energy_expended"]))
        return post

    def add_like(k, cap_of, deliverable):
        def post(a, r):
            v2 = r[0]
            e0 = en(a.vehicle, k)
            e1 = v2.energy.get(k).val()
            return And(v2.energy.has(k), v2.energy_gained.has(k),
                       e1 >= e0, e1 <= cap_of(a),                                                  # never lowers, never above capacity
                       v2.energy_gained.get(k).val() == a.vehicle.energy_gained.get(k).val() + (e1 - e0),
                       v2.energy_expended == a.vehicle.energy_expended,
                       deliverable(a, e1 - e0),                                                    # no more than the plug delivers
                       veh_frame(v2, a.vehicle, ["energy", "energy_gained"]))
        return post

    # ---------------------------------------------------------------- BEV
    B = MECH + "bev.py::BEV."

    def bev_wf(a):
        return And(keys_ok(a.vehicle, ELEC), en(a.vehicle, ELEC) >= 0, en(a.vehicle, ELEC) <= a.self.battery_capacity_kwh,
                   a.self.battery_capacity_kwh > 0, a.self.idle_kwh_per_hour >= 0,
                   a.self.battery_full_threshold_kwh >= 0, a.self.battery_full_threshold_kwh <= a.self.battery_capacity_kwh)

    def bev_units(a):
        eu = iface("Powertrain", "energy_units", Unit)(a.self.powertrain)
        return Or(eu == U("WATT_HOUR"), eu == U("KILOWATT_HOUR"))

    def bev_cost(a):
        eu = iface("Powertrain", "energy_units", Unit)(a.self.powertrain)
        c = iface("Powertrain", "energy_cost", RealT)(a.self.powertrain, a.route)
        return c * Ite(eu == U("KILOWATT_HOUR"), 1, Sym(RealT, z3.RealVal("0.001")))

    s = R.spec(B + "consume_energy")
    s.requires("wf", bev_wf).requires("units", bev_units)
    s.ensures("energy_accounted", consume_like(ELEC, "battery_capacity_kwh", bev_cost), P).no_raise(P)

    s = R.spec(B + "idle")
    s.requires("wf", bev_wf).requires("time", lambda a: a.time_seconds >= 0)
    s.ensures("energy_accounted", consume_like(ELEC, "battery_capacity_kwh",
              lambda a: a.self.idle_kwh_per_hour * a.time_seconds * Sym(RealT, z3.RealVal(1) / 3600)), P).no_raise(P)

    s = R.spec(B + "add_energy")
    s.requires("wf", bev_wf).requires("time", lambda a: And(a.time_seconds >= 0, a.charger.rate >= 0))
    s.ensures("energy_accounted", add_like(ELEC, lambda a: a.self.battery_capacity_kwh,
              lambda a, d: Implies(a.charger.energy_type == ELEC, d * 3600 <= a.charger.rate * a.time_seconds)), P + ("C05",))
    s.ensures("wrong_plug_noop", lambda a, r: Implies(a.charger.energy_type != ELEC, r[0] == a.vehicle), P + ("C05",)).no_raise(P)

    s = R.spec(B + "is_empty")
    s.requires("wf", bev_wf)
    s.ensures("def", lambda a, r: Iff(r, en(a.vehicle, ELEC) <= 0), P).no_raise(P)
    s = R.spec(B + "is_full")
    s.requires("wf", bev_wf)
    s.ensures("def", lambda a, r: Iff(r, en(a.vehicle, ELEC) >= a.self.battery_capacity_kwh - a.self.battery_full_threshold_kwh), P).no_raise(P)

    # ---------------------------------------------------------------- ICE
    I = MECH + "ice.py::ICE."

    def ice_wf(a):
        return And(keys_ok(a.vehicle, GAS), en(a.vehicle, GAS) >= 0, en(a.vehicle, GAS) <= a.self.tank_capacity_gallons,
                   a.self.tank_capacity_gallons > 0, a.self.idle_gallons_per_hour >= 0)

    def ice_units(a):
        return iface("Powertrain", "energy_units", Unit)(a.self.powertrain) == U("GALLON_GASOLINE")

    s = R.spec(I + "consume_energy")
    s.requires("wf", ice_wf).requires("units", ice_units)
    s.ensures("energy_accounted", consume_like(GAS, "tank_capacity_gallons",
              lambda a: iface("Powertrain", "energy_cost", RealT)(a.self.powertrain, a.route)), P).no_raise(P)

    s = R.spec(I + "idle")
    s.requires("wf", ice_wf).requires("time", lambda a: a.time_seconds >= 0)
    s.ensures("energy_accounted", consume_like(GAS, "tank_capacity_gallons",
              lambda a: a.self.idle_gallons_per_hour * a.time_seconds * Sym(RealT, z3.RealVal(1) / 3600)), P).no_raise(P)

    s = R.spec(I + "add_energy")
    s.requires("wf", ice_wf).requires("time", lambda a: And(a.time_seconds >= 0, a.charger.rate >= 0))
    s.ensures("energy_accounted", add_like(GAS, lambda a: a.self.tank_capacity_gallons,
              lambda a, d: Implies(a.charger.energy_type == GAS, d <= a.charger.rate * a.time_seconds)), P + ("C05",))
    s.ensures("wrong_plug_noop", lambda a, r: Implies(a.charger.energy_type != GAS, r[0] == a.vehicle), P + ("C05",)).no_raise(P)

    s = R.spec(I + "is_empty")
    s.requires("wf", ice_wf)
    s.ensures("def", lambda a, r: Iff(r, en(a.vehicle, GAS) <= 0), P).no_raise(P)

    # ---------------------------------------------------------------- TabularPowercurve.charge (loop invariant)
    TPC = MECH + "powercurve/tabular_powercurve.py::TabularPowercurve.charge"
    TP = AbstractTy("TabularPowercurve")
    R.attr("TabularPowercurve", "step_size_seconds", IntT)
    R.attr("TabularPowercurve", "_charging_energy_kwh", AbstractTy("ndarray"))
    R.attr("TabularPowercurve", "_charging_rate_kw", AbstractTy("ndarray"))
    # numpy: interpolation of a non-negative table is non-negative (assumed; the table is an input)
    R.lib("np.interp", lambda args, r: r >= 0)
    R.lib("numpy.interp", lambda args, r: r >= 0)
    s = R.spec(TPC, arg_types={"self": TP, "start_soc": RealT, "full_soc": RealT, "power_kw": RealT, "duration_seconds": IntT},
               ret=TupleTy([RealT, IntT]))
    step = lambda a: iface("TabularPowercurve", "step_size_seconds", IntT)(a.self)
    s.requires("inputs", lambda a: And(a.power_kw >= 0, a.duration_seconds >= 0, step(a) > 0))
    s.ensures("never_lowers", lambda a, r: r[0] >= a.start_soc, P)
    s.ensures("deliverable_in_duration", lambda a, r: (r[0] - a.start_soc) * 3600 <= a.power_kw * a.duration_seconds, P)
    s.no_raise(P)
    R.loop(TPC, "while", 0, props=P,
           invariant=lambda v: And(v.t >= 0, v.t <= v.duration_seconds, v.energy_kwh >= v.start_soc,
                                   (v.energy_kwh - v.start_soc) * 3600 <= v.power_kw * v.t),
           variant=lambda v: v.duration_seconds - v.t)
