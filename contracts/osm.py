"""C13 on the street-graph network: OSMRoadNetwork.route and its helpers (routes are connected paths).

Assumed (listed in the evidence): networkx.astar_path returns a node path from the source to the target node whose
consecutive pairs are edges; every edge (u, v) of the graph has its Link in the link table under create_link_id(u, v)
with start/end at the cells of u and v (what OSMRoadNetworkLinkHelper.build constructs); the text of a link id
round-trips through extract_node_ids_int."""
import z3
from pyvc.values import *
from pyvc.tys import *
from .common import *
from .roads import at, last, connected

OSM = "nrel/hive/model/roadnetwork/osm/"
OPS = OSM + "osm_roadnetwork_ops.py::"
NET = OSM + "osm_roadnetwork.py::OSMRoadNetwork."
LID = "nrel/hive/model/roadnetwork/link_id.py::"


def register(R):
    world = R.world
    LK = world.class_ty("Link")
    LTT = world.class_ty("LinkTraversal")
    ROUTE = SeqTy(LTT)
    EP = world.class_ty("EntityPosition")
    TABLE = MapTy(StrT, LK)
    NODES = SeqTy(IntT)
    NETT = AbstractTy("OSMRoadNetwork")
    HELPER = world.class_ty("OSMRoadNetworkLinkHelper")

    _lid = z3.Function("osm_link_id", z3.IntSort(), z3.IntSort(), Str)
    _geo = z3.Function("osm_node_cell", z3.IntSort(), Str)          # ghost: the cell of a graph node

    def link_id(u, v):
        return Sym(StrT, _lid(coerce(u, IntT), coerce(v, IntT)))

    def node_cell(u):
        return Sym(StrT, _geo(coerce(u, IntT)))

    def lt_of(link):
        """Link.to_link_traversal()"""
        return v_construct(world, "LinkTraversal", dict(link_id=link.link_id, start=link.start, end=link.end,
                                                        distance_km=link.distance_km, speed_kmph=link.speed_kmph))

    def table_wf(table):
        """the link table built from the graph: the link of edge (u, v) runs from the cell of u to the cell of v and is
        stored under its own id"""
        u, v = bound(IntT, "u_tw"), bound(IntT, "v_tw")
        return forall([u, v], Implies(table.has(link_id(u, v)), And(
            table.get(link_id(u, v)).val().link_id == link_id(u, v),
            table.get(link_id(u, v)).val().start == node_cell(u),
            table.get(link_id(u, v)).val().end == node_cell(v))))

    def path_in(table, p):
        k = bound(IntT, "k_pi")
        return forall([k], Implies(And(k >= 0, k + 1 < p.len()), table.has(link_id(at(p, k), at(p, k + 1)))))

    # ---- link ids (text): assumed
    s = R.spec(LID + "create_link_id", arg_types={"src": IntT, "dst": IntT}, ret=StrT)
    s.opaque = True
    s.assume_only("f-string `{src}-{dst}` not modelled: the id is an uninterpreted injective function of the two node ids")
    s.ensures("fn", lambda a, r: r == link_id(a.src, a.dst))
    s = R.spec(LID + "extract_node_ids_int", arg_types={"link_id": StrT}, ret=TupleTy([OptTy(ExcT), OptTy(TupleTy([IntT, IntT]))]))
    s.opaque = True
    s.assume_only("text round trip: extract_node_ids_int(create_link_id(u, v)) == (None, (u, v))")

    def ext_post(a, r):
        u, v = bound(IntT, "u_ex"), bound(IntT, "v_ex")
        return And(Or(ok(r), failed(r)),
                   forall([u, v], Implies(a.link_id == link_id(u, v), And(ok(r), r[1].val()[0] == u, r[1].val()[1] == v))))
    s.ensures("round_trip", ext_post)

    # ---- route_from_nx_path: node path -> links
    k = OPS + "route_from_nx_path"
    ACC = TupleTy([OptTy(ExcT), OptTy(ROUTE)])
    s = R.spec(k, arg_types={"nx_path": NODES, "link_lookup": TABLE}, ret=ACC)
    s.opaque = True
    s.requires("nonempty", lambda a: a.nx_path.len() >= 1)

    def rfn_post(a, r):
        p, tb = a.nx_path, a.link_lookup
        j = bound(IntT, "j_rf")
        route = r[1].val()
        return And(Or(ok(r), failed(r)),
                   Implies(path_in(tb, p), ok(r)),
                   Implies(ok(r), And(route.len() == p.len() - 1,
                                      forall([j], Implies(And(j >= 0, j < route.len()), And(
                                          tb.has(link_id(at(p, j), at(p, j + 1))),
                                          at(route, j) == lt_of(tb.get(link_id(at(p, j), at(p, j + 1))).val())))))))
    s.ensures("one_link_per_consecutive_node_pair", rfn_post, ("C13",))
    s.no_raise(("C13",))

    def rfn_inv(acc, i, xs, env):
        err, links = acc
        p, tb = env.nx_path, env.link_lookup
        j = bound(IntT, "j_ri")
        return And(Or(And(err.is_some(), links.is_none()), And(err.is_none(), links.is_some())),
                   Implies(And(path_in(tb, p)), err.is_none()),
                   Implies(err.is_none(), And(links.val().len() == i,
                                              forall([j], Implies(And(j >= 0, j < i), And(
                                                  tb.has(link_id(at(p, j), at(p, j + 1))),
                                                  at(links.val(), j) == lt_of(tb.get(link_id(at(p, j), at(p, j + 1))).val())))))))
    R.loop(k, "reduce", 0, acc_type=ACC, props=("C13",), invariant=rfn_inv)

    # ---- resolve_route_src_dst_positions: attach the origin and destination links with adjusted ends
    k = OPS + "resolve_route_src_dst_positions"
    s = R.spec(k, arg_types={"inner_route": ROUTE, "road_network": NETT}, ret=OptTy(ROUTE))
    s.opaque = True
    net_link = iface("OSMRoadNetwork", "link_from_link_id", OptTy(LK))

    def rr_post(a, r):
        sl, dl = net_link(a.road_network, a.src_link_pos.link_id), net_link(a.road_network, a.dst_link_pos.link_id)
        j = bound(IntT, "j_rr")
        route = r.val()
        n = a.inner_route.len()
        return And(Iff(r.is_none(), Or(sl.is_none(), dl.is_none())),
                   Implies(r.is_some(), And(
                       route.len() == n + 2,
                       at(route, 0) == lt_of(sl.val())._replace(start=a.src_link_pos.geoid),
                       at(route, n + 1) == lt_of(dl.val())._replace(end=a.dst_link_pos.geoid),
                       forall([j], Implies(And(j >= 1, j <= n), at(route, j) == at(a.inner_route, j - 1))))))
    s.ensures("origin_link_then_inner_then_destination_link", rr_post, ("C13",))
    s.no_raise(("C13",))
    R.iface("OSMRoadNetwork", "link_from_link_id", None, ret=OptTy(LK))

    # ---- OSMRoadNetwork.route
    GRAPH = AbstractTy("MultiDiGraph")
    LH = AbstractTy("OSMRoadNetworkLinkHelper")
    R.attr("OSMRoadNetwork", "graph", GRAPH)
    R.attr("OSMRoadNetwork", "link_helper", LH)
    R.attr("OSMRoadNetwork", "max_speed_kmph", RealT)
    R.attr("OSMRoadNetworkLinkHelper", "links", TABLE)
    links_of = lambda net: iface("OSMRoadNetworkLinkHelper", "links", TABLE)(iface("OSMRoadNetwork", "link_helper", LH)(net))
    graph_of = lambda net: iface("OSMRoadNetwork", "graph", GRAPH)(net)
    _gt = z3.Function("osm_graph_table", GRAPH.sort, TABLE.sort)      # ghost: the link table built from a graph
    graph_table = lambda g: Sym(TABLE, _gt(g.e))
    _sn = z3.Function("osm_src_node", Str, z3.IntSort())
    _dn = z3.Function("osm_dst_node", Str, z3.IntSort())
    src_node = lambda i: Sym(IntT, _sn(i.e))
    dst_node = lambda i: Sym(IntT, _dn(i.e))

    # networkx.astar_path(graph, s, t): a node path from s to t along edges of the graph (assumed; strongly connected graph)
    from pyvc.builtins import LIB_UF
    LIB_UF["networkx.astar_path"] = NODES
    R.lib("networkx.astar_path", lambda args, r: And(r.len() >= 1, at(r, 0) == args[1], last(r) == args[2],
                                                       path_in(graph_table(args[0]), r)))

    def on_network(net, pos):
        """a position produced by position_from_geoid: it names a link of the table"""
        i = pos.link_id
        return And(i == link_id(src_node(i), dst_node(i)), links_of(net).has(i))

    k = NET + "route"
    s = R.spec(k, arg_types={"self": NETT}, ret=ROUTE)
    s.requires("network_tables_consistent", lambda a: And(table_wf(links_of(a.self)), graph_table(graph_of(a.self)) == links_of(a.self)))
    s.requires("positions_on_network", lambda a: And(on_network(a.self, a.origin), on_network(a.self, a.destination)))
    s.ghost_definition("link_from_link_id", lambda a: forall([bound(StrT, "i_gd")], net_link(a.self, bound(StrT, "i_gd")) == links_of(a.self).get(bound(StrT, "i_gd"))))

    def route_post(a, r):
        j = bound(IntT, "j_rt")
        same = a.origin == a.destination
        return And(Iff(r.len() == 0, same),
                   Implies(Not(same), And(at(r, 0).start == a.origin.geoid, last(r).end == a.destination.geoid, connected(r),
                                          forall([j], Implies(And(j >= 0, j < r.len()), links_of(a.self).has(at(r, j).link_id))))))
    s.ensures("connected_path_from_origin_to_destination", route_post, ("C13",))
    s.no_raise(("C13",))

    s = R.spec(NET + "link_from_link_id", arg_types={"self": NETT}, ret=OptTy(LK))
    s.ensures("table_lookup", lambda a, r: r == links_of(a.self).get(a.link_id), ("C13",))
    s.no_raise(("C13",))
