"""C06 (traversal) and C13 (routes are connected paths) for the straight-line network and the traversal functions."""
import z3
from pyvc.values import *
from pyvc.tys import *
from .common import *

RN = "nrel/hive/model/roadnetwork/"
LT = RN + "linktraversal.py::"
RT = RN + "routetraversal.py::"
HV = RN + "haversine_roadnetwork.py::HaversineRoadNetwork."
HL = RN + "haversine_link_id_ops.py::"


def last(seq):
    return Sym(seq.ty.elem, seq.e[(seq.len() - 1).e])


def at(seq, i):
    return Sym(seq.ty.elem, seq.e[i.e if isinstance(i, Sym) else i])


def connected(route):
    j = bound(IntT, "j_cn")
    return forall([j], Implies(And(j >= 0, j + 1 < route.len()), at(route, j).end == at(route, j + 1).start))


def travel_time(link):
    """LinkTraversal.travel_time_seconds = int(distance / speed * 3600) (truncation = floor for non-negative values)"""
    return v_int_trunc(link.distance_km / link.speed_kmph * 3600)


def register(R):
    world = R.world
    LTT = world.class_ty("LinkTraversal")
    ROUTE = SeqTy(LTT)
    EP = world.class_ty("EntityPosition")
    # geometry (h3 + trigonometry): assumed non-negative distances
    R.lib("math.sqrt", lambda args, r: r >= 0)
    R.lib("math.asin", lambda args, r: Implies(args[0] >= 0, r >= 0))

    # ------------------------------------------------------------ link-id strings of the straight-line network (axiom)
    s = R.spec(HL + "geoids_to_link_id", arg_types={"origin": StrT, "destination": StrT}, ret=StrT)
    s.opaque = True
    s.assume_only("string construction `a-b` is not modelled: the link id is an uninterpreted function of the two cells")
    mk_id = lambda o, d: uf_str2("hv_link_id")(o, d)
    s.ensures("fn", lambda a, r: r == mk_id(a.origin, a.destination))
    s = R.spec(HL + "link_id_to_geodis", arg_types={"link_id": StrT}, ret=TupleTy([StrT, StrT]))
    s.opaque = True
    s.assume_only("string split round trip: link_id_to_geodis(geoids_to_link_id(a, b)) == (a, b) (cell ids contain no dash)")
    s.ensures("round_trip", lambda a, r: forall([bound(StrT, "o_rt"), bound(StrT, "d_rt")], Implies(
        a.link_id == mk_id(bound(StrT, "o_rt"), bound(StrT, "d_rt")), And(r[0] == bound(StrT, "o_rt"), r[1] == bound(StrT, "d_rt")))))

    # ------------------------------------------------------------ traverse_up_to (C06)
    s = R.spec(LT + "traverse_up_to", arg_types={"link": LTT, "available_time_seconds": IntT})
    s.requires("inputs", lambda a: And(a.available_time_seconds >= 0, a.link.speed_kmph > 0, a.link.distance_km >= 0))

    def tut(a, r):
        res = r[1].val()
        tr, rem = res.traversed, res.remaining
        degenerate = a.link.start == a.link.end
        return And(ok(r),
                   Implies(degenerate, And(tr.is_none(), rem.is_none(), res.remaining_time_seconds == a.available_time_seconds)),
                   Implies(Not(degenerate), And(
                       tr.is_some(), tr.val().start == a.link.start, tr.val().link_id == a.link.link_id,
                       # either the whole link is driven, or it is split at one cell: driven part ends where the rest starts
                       # a completed link costs exactly its (whole-second) travel time
                       Implies(rem.is_none(), And(tr.val() == a.link, res.remaining_time_seconds >= 0,
                                                  res.remaining_time_seconds <= a.available_time_seconds,
                                                  res.remaining_time_seconds == a.available_time_seconds - travel_time(a.link),
                                                  travel_time(a.link) <= a.available_time_seconds)),
                       Implies(rem.is_some(), And(tr.val().end == rem.val().start, rem.val().end == a.link.end,
                                                  rem.val().link_id == a.link.link_id, res.remaining_time_seconds == 0,
                                                  tr.val().speed_kmph == a.link.speed_kmph, rem.val().speed_kmph == a.link.speed_kmph)))))
    s.ensures("split_at_junction", tut, ("C06",))
    s.no_raise(("C06",))

    # ------------------------------------------------------------ traverse: fold over the route (C06)
    tk = RT + "traverse"
    RTV = world.class_ty("RouteTraversal")
    ACC = TupleTy([OptTy(ExcT), OptTy(RTV)])
    s = R.specs[tk]

    def nonneg(route):
        j = bound(IntT, "j_nl")
        return forall([j], Implies(And(j >= 0, j < route.len()), at(route, j).distance_km >= 0))

    def well_formed_route(route):
        # consecutive links join and lengths are non-negative (what C13 guarantees of router output)
        return And(connected(route), nonneg(route))

    def cur(xs, i):
        """position on the route after i links"""
        return Ite(i <= 0, at(xs, 0).start, at(xs, i - 1).end)

    def tr_inv(acc, i, xs, env):
        err, tv = acc
        t = tv.val()
        ex_, rem = t.experienced_route, t.remaining_route
        return Or(And(err.is_some(), tv.is_none()), And(err.is_none(), tv.is_some(), Implies(well_formed_route(xs), And(
                  t.remaining_time_seconds >= 0, t.traversal_distance_km >= 0,
                  Implies(And(ex_.len() == 0, rem.len() == 0), cur(xs, i) == at(xs, 0).start),
                  Implies(ex_.len() > 0, at(ex_, 0).start == at(xs, 0).start),
                  Implies(And(ex_.len() > 0, rem.len() == 0), last(ex_).end == cur(xs, i)),
                  Implies(rem.len() > 0, And(last(rem).end == cur(xs, i), t.remaining_time_seconds == 0,
                                             Implies(ex_.len() > 0, last(ex_).end == at(rem, 0).start),
                                             Implies(ex_.len() == 0, at(rem, 0).start == at(xs, 0).start)))))))
    R.loop(tk, "reduce", 0, acc_type=ACC, props=("C06",), invariant=tr_inv)

    # one fold step: the time a link takes is taken from what is left of *this traversal's* budget (time never comes
    # back), and the odometer grows by exactly the length of what was driven
    sk_ = RT + "traverse._traverse"
    s = R.spec(sk_, arg_types={"acc": ACC, "link": LTT}, ret=ACC)
    s.outer_arg_types = {"route_estimate": ROUTE, "duration_seconds": IntT, "road_network": AbstractTy("RoadNetwork")}
    s.requires("time_left", lambda a: Implies(a.acc[1].is_some(), a.acc[1].val().remaining_time_seconds >= 0))
    s.requires("len", lambda a: a.link.distance_km >= 0)

    def step_post(a, r):
        err0, tv0 = a.acc
        err1, tv1 = r
        t0, t1 = tv0.val(), tv1.val()
        gt = iface("RoadNetwork", "link_from_link_id", OptTy(world.class_ty("Link")))(a.outer.road_network, a.link.link_id)
        upd = a.link._replace(speed_kmph=gt.val().speed_kmph)
        n0, n1 = t0.experienced_route.len(), t1.experienced_route.len()
        drove = n1 == n0 + 1
        driven = last(t1.experienced_route)
        return And(
            Implies(Or(err0.is_some(), tv0.is_none()), And(err1 == err0, tv1 == tv0)),
            Implies(And(err0.is_none(), tv0.is_some(), err1.is_none(), tv1.is_some()), And(
                Or(n1 == n0, drove),
                t1.remaining_time_seconds <= t0.remaining_time_seconds, t1.remaining_time_seconds >= 0,
                # the whole link was driven: its travel time (at the network's current speed) is spent
                Implies(And(drove, t1.remaining_route.len() == t0.remaining_route.len()),
                        And(driven == upd, t1.remaining_time_seconds == t0.remaining_time_seconds - travel_time(upd))),
                # part of the link was driven: the budget is used up
                Implies(And(drove, t1.remaining_route.len() > t0.remaining_route.len()), t1.remaining_time_seconds == 0),
                # odometer
                t1.traversal_distance_km == t0.traversal_distance_km + Ite(drove, driven.distance_km, 0),
                Implies(t0.remaining_time_seconds == 0, And(n1 == n0, t1.remaining_route.len() == t0.remaining_route.len() + 1)))))
    s.ensures("time_is_spent_once_and_odometer_exact", step_post, ("C06",))
    # the network's view of a link: positive speed (assumed input: link tables hold positive speeds)
    R.iface("RoadNetwork", "link_from_link_id", lambda recv, args, r: Implies(r.is_some(), r.val().speed_kmph > 0))
    R.specs[tk].wf_route = well_formed_route

    # ------------------------------------------------------------ straight-line network (C13)
    HVT = AbstractTy("HaversineRoadNetwork")
    s = R.spec(HV + "route", arg_types={"self": HVT}, ret=ROUTE)

    def hv_route(a, r):
        same = a.origin == a.destination
        return And(Iff(r.len() == 0, same),
                   Implies(Not(same), And(r.len() == 1, at(r, 0).start == a.origin.geoid, at(r, 0).end == a.destination.geoid,
                                          at(r, 0).link_id == mk_id(a.origin.geoid, a.destination.geoid), at(r, 0).speed_kmph > 0)))
    s.ensures("single_link_from_origin_to_destination", hv_route, ("C13", "C07"))
    s.no_raise(("C13",))

    LK = world.class_ty("Link")
    s = R.spec(HV + "link_from_link_id", arg_types={"self": HVT}, ret=OptTy(LK))
    s.ensures("links_of_routes_exist", lambda a, r: forall([bound(StrT, "o_lk"), bound(StrT, "d_lk")], Implies(
        a.link_id == mk_id(bound(StrT, "o_lk"), bound(StrT, "d_lk")),
        And(r.is_some(), r.val().start == bound(StrT, "o_lk"), r.val().end == bound(StrT, "d_lk"), r.val().link_id == a.link_id,
            r.val().speed_kmph > 0))), ("C13",))

    s = R.spec(HV + "link_from_geoid", arg_types={"self": HVT}, ret=OptTy(LK))
    s.ensures("self_link", lambda a, r: And(r.is_some(), r.val().start == a.geoid, r.val().end == a.geoid), ("C13",))
    s.no_raise(("C13",))

    # snapping: the returned position lies on the link it names
    h3_line = uf("h3.h3_line")
    R.lib("h3.h3_line", lambda args, r: And(r.len() > 0, at(r, 0) == args[0]))
    s = R.spec(RN + "roadnetwork.py::RoadNetwork.position_from_geoid", arg_types={"self": AbstractTy("RoadNetwork")}, ret=OptTy(EP))
    link_of = iface("RoadNetwork", "link_from_geoid", OptTy(LK))

    def snap(a, r):
        lk = link_of(a.self, a.geoid)
        line = h3_line(lk.val().start, lk.val().end)
        k_ = bound(IntT, "k_sn")
        return And(Iff(r.is_none(), lk.is_none()),
                   Implies(r.is_some(), And(r.val().link_id == lk.val().link_id,
                                            exists([k_], And(k_ >= 0, k_ < line.len(), at(line, k_) == r.val().geoid)))))
    s.ensures("position_lies_on_named_link", snap, ("C13",))
    s.no_raise(("C13",))


_UF2 = {}


def uf_str2(name):
    if name not in _UF2:
        _UF2[name] = z3.Function(name, Str, Str, Str)
    return lambda a, b: Sym(StrT, _UF2[name](coerce(a, StrT), coerce(b, StrT)))
