"""C18: charging queues are served first-come first-served."""
import z3
from pyvc.values import *
from pyvc.tys import *
from .common import *
from .statemachine import *
from .servicing import ESO

P = ("C18",)


def avail(stations, s, c):
    return stations.get(s).val().state.get(c).val().available_chargers


def has_plug(stations, s, c):
    return And(stations.has(s), stations.get(s).val().state.has(c))


def register(R):
    world = R.world
    k = key("ChargeQueueing", "update") + "#fifo"
    s = R.spec(k)
    s.unfold = {"inv02"}
    s.requires("wf", WF_PRE).requires("inv02", lambda a: inv02(a.sim))
    s.requires("current", lambda a: And(a.sim.vehicles.has(a.self.vehicle_id),
               a.sim.vehicles.get(a.self.vehicle_id).val().vehicle_state == as_union(a.self)))

    def no_release(a, r):
        # (A) a queueing vehicle's update never frees a plug: availability of every plug type is non-increasing
        s_, c_ = bound(StrT, "s_q"), bound(StrT, "c_q")
        s2 = r[1].val()
        return Implies(ok(r), forall([s_, c_], Implies(has_plug(a.sim.stations, s_, c_), And(
            has_plug(s2.stations, s_, c_), avail(s2.stations, s_, c_) <= avail(a.sim.stations, s_, c_)))))
    s.ensures("queue_phase_releases_no_plug", no_release, P)

    def left_waiting_only_if_none_free(a, r):
        # (B) a vehicle that is still queueing after its (successful) update found no free plug of its type
        s2 = r[1].val()
        n = s2.vehicles.get(a.self.vehicle_id).val().vehicle_state
        return Implies(And(ok(r), n.is_a("ChargeQueueing"), has_plug(a.sim.stations, a.self.station_id, a.self.charger_id)),
                       avail(a.sim.stations, a.self.station_id, a.self.charger_id) <= 0)
    s.ensures("still_waiting_only_if_none_free", left_waiting_only_if_none_free, P)

    def plugs_only_when_free(a, r):
        # (C) it starts charging only on a plug of the type it queued for, at its station, that was free at its turn
        s2 = r[1].val()
        n = s2.vehicles.get(a.self.vehicle_id).val().vehicle_state
        cs = n.as_a("ChargingStation")
        return Implies(And(ok(r), n.is_a("ChargingStation")), And(
            cs.station_id == a.self.station_id, cs.charger_id == a.self.charger_id,
            has_plug(a.sim.stations, a.self.station_id, a.self.charger_id),
            avail(a.sim.stations, a.self.station_id, a.self.charger_id) > 0))
    s.ensures("plug_taken_only_when_free", plugs_only_when_free, P)
    s.uses_lemma("L1 sum point-update (lemmas/Lemmas.lean): the counts before/after the update", lambda a, r: Implies(
        And(ok(r), r[1].val().vehicles.has(a.self.vehicle_id)),
        l1_instances(a.sim.vehicles, a.self.vehicle_id, r[1].val().vehicles.get(a.self.vehicle_id).val())))
    s.uses_lemma("definition of Inv02 revealed at the resulting state", lambda a, r: Implies(
        ok(r), reveal_at("inv02", inv02_def, r[1].val().stations, r[1].val().bases, r[1].val().vehicles)))
    s.ensures("leaves_queue_only_to_charge", lambda a, r: Implies(ok(r), Or(
        r[1].val().vehicles.get(a.self.vehicle_id).val().vehicle_state.is_a("ChargeQueueing"),
        r[1].val().vehicles.get(a.self.vehicle_id).val().vehicle_state.is_a("ChargingStation"))), P)
