"""State-machine layer: enter / exit contracts of every VehicleState class, generated from the state
descriptor table of DESIGN §3 (written from the property statements C02, C03, C07, C10, C17 — not from the code)."""
import z3
from pyvc.values import *
from pyvc.tys import *
from .common import *
from .simstate import inv08, same_except, KINDS, SO, parent

VS = "nrel/hive/state/vehicle_state/"
STN = "nrel/hive/model/station/station.py::Station."

_G = {}


class NS_:
    def __init__(self, d):
        self.__dict__.update(d)


def WF_PRE(a):
    return wf(a.sim)


def WF_KEPT(a, r):
    return Implies(ok(r), wf(r[1].val()))


def E_INST(a, r):
    """the activity entered carries the instance tag of the requested one, or a brand-new one"""
    vid = as_union(a.self).vehicle_id
    n = r[1].val().vehicles.get(vid).val().vehicle_state
    old = a.sim.vehicles.get(vid).val().vehicle_state
    return Implies(ok(r), Or(n.instance_id == as_union(a.self).instance_id, n.instance_id != old.instance_id))


def SHAPE(a, r):
    """a state and an error are never returned together (C09: all-or-nothing)"""
    return Or(ok(r), failed(r), nothing(r))


def W():
    return _G["world"]


def VST():
    return UnionTy(W(), "VehicleState")


def as_union(x):
    return Sym(VST(), x.e) if isinstance(x.ty, ClassTy) else x


# ---------------------------------------------------------------- ghost: station served by a base (never changes)
def base_station(b):
    f = _G.setdefault("base_station", z3.Function("ghost_base_station", Str, OptTy(StrT).sort))
    return Sym(OptTy(StrT), f(b.e if isinstance(b, Sym) else coerce(b, StrT)))


def wf_bases_def(bases):
    b = bound(StrT, "b_wf")
    return forall([b], Implies(bases.has(b), bases.get(b).val().station_id == base_station(b)))


def wf_bases(sim):
    return pred("wfb", wf_bases_def, sim.bases)


# ---------------------------------------------------------------- descriptor table as spec functions
def holds(st, s, c):
    cs, cb = st.as_a("ChargingStation"), st.as_a("ChargingBase")
    return Or(And(st.is_a("ChargingStation"), cs.station_id == s, cs.charger_id == c),
              And(st.is_a("ChargingBase"), base_station(cb.base_id) == some(s), cb.charger_id == c))


def queues(st, s, c):
    q = st.as_a("ChargeQueueing")
    return And(st.is_a("ChargeQueueing"), q.station_id == s, q.charger_id == c)


def parks(st, b):
    return Or(And(st.is_a("ReserveBase"), st.as_a("ReserveBase").base_id == b),
              And(st.is_a("ChargingBase"), st.as_a("ChargingBase").base_id == b))


def ind(b):
    return Ite(b, 1, 0)


VMAP = None


def cnt(kind, vehicles, *params):
    """number of vehicles whose activity holds / queues / parks: uninterpreted, constrained by L1 instances"""
    key = "cnt_" + kind
    if key not in _G:
        _G[key] = z3.Function(key, vehicles.ty.sort, *[Str for _ in params], z3.IntSort())
    return Sym(IntT, _G[key](vehicles.e, *[p.e for p in params]))


def l1_instances(V, k, newv):
    """L1 (sum point-update, Lean: Finset.sum_update_of_mem) for V.set(k, newv), k in dom V — quantified over
    the parameters only (instantiated pointwise by the solver driver)"""
    s, c, b = bound(StrT, "s_l1"), bound(StrT, "c_l1"), bound(StrT, "b_l1")
    old = V.get(k).val().vehicle_state
    new = newv.vehicle_state
    V2 = V.set(k, newv)
    return And(
        forall([s, c], cnt("H", V2, s, c) == cnt("H", V, s, c) - ind(holds(old, s, c)) + ind(holds(new, s, c))),
        forall([s, c], cnt("Q", V2, s, c) == cnt("Q", V, s, c) - ind(queues(old, s, c)) + ind(queues(new, s, c))),
        forall([b], cnt("P", V2, b) == cnt("P", V, b) - ind(parks(old, b)) + ind(parks(new, b))),
    )


def inv02(sim):
    return pred("inv02", inv02_def, sim.stations, sim.bases, sim.vehicles)


def inv02_def(stations, bases, vehicles):
    sim = NS_({"stations": stations, "bases": bases, "vehicles": vehicles})
    s, c, b = bound(StrT, "s_i2"), bound(StrT, "c_i2"), bound(StrT, "b_i2")
    stn = sim.stations.get(s).val()
    cs = stn.state.get(c).val()
    base = sim.bases.get(b).val()
    return And(
        forall([s, c], Implies(And(sim.stations.has(s), stn.state.has(c)), And(
            cs.available_chargers >= 0, cs.available_chargers <= cs.total_chargers,
            cs.total_chargers - cs.available_chargers == cnt("H", sim.vehicles, s, c),
            cs.enqueued_vehicles == cnt("Q", sim.vehicles, s, c)))),
        forall([b], Implies(sim.bases.has(b), And(
            base.available_stalls >= 0, base.available_stalls <= base.total_stalls,
            base.total_stalls - base.available_stalls == cnt("P", sim.vehicles, b)))),
    )


def ids_ok(sim):
    return pred("ids", ids_ok_def, sim.vehicles, sim.stations, sim.bases, sim.requests)


def ids_ok_def(vehicles, stations, bases, requests):
    sim = NS_({"vehicles": vehicles, "stations": stations, "bases": bases, "requests": requests})
    return _ids_ok(sim)


def _ids_ok(sim):
    """map key = entity id, for the four entity maps (part of Inv08, kept revealed: it is what lets a point update
    keyed by `entity.id` be read as an update of the looked-up key)"""
    i = bound(StrT, "i_ids")
    return And(*[forall([i], Implies(getattr(sim, e).has(i), getattr(sim, e).get(i).val().id == i))
                 for e in ("vehicles", "stations", "bases", "requests")],
               forall([i], Implies(sim.vehicles.has(i), And(sim.vehicles.get(i).val().vehicle_state.vehicle_id == i,
                                                            driver_vid(sim.vehicles.get(i).val().driver_state) == i))))


def driver_vid(ds):
    """the vehicle a driver state belongs to (every DriverState class carries it in its attributes)"""
    e = None
    for m in ds.ty.members():
        v = ds.as_a(m).attributes.vehicle_id
        e = v if e is None else Ite(ds.is_a(m), v, e)
    return e


def wf(sim):
    return And(inv08(sim), ids_ok(sim), wf_bases(sim), sim.sim_timestep_duration_seconds > 0)


# ---- resource updates on the station / base maps
def cs_update(stations, s, c, f):
    stn = stations.get(s).val()
    has = And(stations.has(s), stn.state.has(c))
    cs = stn.state.get(c).val()
    return Ite(has, stations.set(s, stn._replace(state=stn.state.set(c, f(cs)))), stations)


def inc_avail(stations, s, c):
    return cs_update(stations, s, c, lambda cs: cs._replace(available_chargers=cs.available_chargers + 1))


def dec_avail(stations, s, c):
    return cs_update(stations, s, c, lambda cs: cs._replace(available_chargers=cs.available_chargers - 1))


def inc_enq(stations, s, c):
    return cs_update(stations, s, c, lambda cs: cs._replace(enqueued_vehicles=cs.enqueued_vehicles + 1))


def dec_enq(stations, s, c):
    return cs_update(stations, s, c, lambda cs: cs._replace(enqueued_vehicles=cs.enqueued_vehicles - 1))


def stall(bases, b, d):
    base = bases.get(b).val()
    return Ite(bases.has(b), bases.set(b, base._replace(available_stalls=base.available_stalls + d)), bases)


def set_record(requests, r, veh, t):
    """requests with request r's dispatched_vehicle record set (veh=None clears it)"""
    req = requests.get(r).val()
    if veh is None:
        new = req._replace(dispatched_vehicle=None, dispatched_vehicle_time=None)
    else:
        new = req._replace(dispatched_vehicle=some(veh), dispatched_vehicle_time=some(t))
    return Ite(requests.has(r), requests.set(r, new), requests)


def grants(target_m, vehicle_m):
    """C10: target membership grants access to the vehicle: public, or a fleet in common"""
    m = bound(StrT, "m_g")
    return Or(target_m.memberships == Sym(SetTy(StrT), SetTy(StrT).empty()),
              exists([m], And(target_m.memberships.has(m), vehicle_m.memberships.has(m))))


def route_ok(route, src_geoid, dst_geoid=None):
    """C07: a planned route starts at src and (if given) ends at dst; an empty route means src == dst"""
    n = route.len()
    first = route[0]
    last = Sym(route.ty.elem, route.e[(n - 1).e])
    if dst_geoid is None:
        return Implies(n > 0, first.start == src_geoid)
    return And(Implies(n > 0, And(first.start == src_geoid, last.end == dst_geoid)),
               Implies(n == 0, src_geoid == dst_geoid))


def same_up_to_instance(n, self_, cname):
    """n is a `cname` whose fields equal self's except instance_id"""
    t = ClassTy(W(), cname)
    nn = n.as_a(cname)
    return And(n.is_a(cname), *[getattr(nn, f) == getattr(self_, f) for f, _ in t.fields() if f != "instance_id"])


def veh_with_state(sim, vid, n):
    veh = sim.vehicles.get(vid).val()
    return sim.vehicles.set(vid, veh._replace(vehicle_state=n))


SIMPLE_EXIT = ["Idle", "OutOfService", "Repositioning", "DispatchStation", "DispatchBase"]
FILE = {"Idle": "idle", "OutOfService": "out_of_service", "Repositioning": "repositioning", "ReserveBase": "reserve_base",
        "ChargingBase": "charging_base", "ChargingStation": "charging_station", "ChargeQueueing": "charge_queueing",
        "DispatchStation": "dispatch_station", "DispatchBase": "dispatch_base", "DispatchTrip": "dispatch_trip",
        "ServicingTrip": "servicing_trip", "DispatchPoolingTrip": "dispatch_pooling_trip",
        "ServicingPoolingTrip": "servicing_pooling_trip"}


def key(cname, m):
    return f"{VS}{FILE[cname]}.py::{cname}.{m}"


def register(R):
    _G["world"] = R.world
    SIM = R.world.class_ty("SimulationState")
    P2 = ("C02",)

    def within(sim, g):
        return iface("RoadNetwork", "geoid_within_geofence", BoolT)(sim.road_network, g)

    # ------------------------------------------------------------ ErrorOr wrappers (opaque for the layer above)
    for kind, (ents, loc, search, cname) in KINDS.items():
        upd = f"updated_{kind}"
        s = R.spec(SO + f"modify_{kind}")
        s.opaque = True
        s.unfold = {"inv08"}
        s.requires("inv", (lambda kind: lambda a: inv08(a.sim, [kind]))(kind))

        def post(a, r, ents=ents, loc=loc, search=search, upd=upd, kind=kind):
            u = getattr(a, upd)
            E = getattr(a.sim, ents)
            return And(Or(ok(r), failed(r)),
                       Implies(Not(E.has(u.id)), failed(r)),
                       Implies(ok(r), And(E.has(u.id), getattr(r[1].val(), ents) == E.set(u.id, u),
                                          same_except(r[1].val(), a.sim, [ents, loc, search]),
                                          inv08(r[1].val(), [kind]))))
        s.ensures("point_update", post, ("C08", "C02"))
        if kind in ("station", "base"):
            s.ensures("index_untouched", (lambda ents, loc, search, upd: lambda a, r: Implies(ok(r), And(
                getattr(r[1].val(), loc) == getattr(a.sim, loc), getattr(r[1].val(), search) == getattr(a.sim, search),
                geoid(getattr(a.sim, ents).get(getattr(a, upd).id).val()) == geoid(getattr(a, upd)))))(ents, loc, search, upd), ("C08", "C07"))
            s.ensures("succeeds_when_same_place", (lambda ents, upd: lambda a, r: Implies(And(
                getattr(a.sim, ents).has(getattr(a, upd).id),
                geoid(getattr(a.sim, ents).get(getattr(a, upd).id).val()) == geoid(getattr(a, upd)),
                within(a.sim, geoid(getattr(a, upd)))), ok(r)))(ents, upd), ("C08",))
        else:
            s.ensures("unmoved_keeps_index", (lambda ents, loc, search, upd: lambda a, r: Implies(And(ok(r),
                geoid(getattr(a.sim, ents).get(getattr(a, upd).id).val()) == geoid(getattr(a, upd))), And(
                getattr(r[1].val(), loc) == getattr(a.sim, loc), getattr(r[1].val(), search) == getattr(a.sim, search))))(ents, loc, search, upd), ("C08",))
        s.no_raise(("C08",))

    s = R.spec(SO + "remove_request")
    s.opaque = True
    s.unfold = {"inv08"}
    s.requires("inv", lambda a: inv08(a.sim, ["request"]))
    s.ensures("removed", lambda a, r: And(Or(ok(r), failed(r)), Iff(ok(r), a.sim.requests.has(a.request_id)),
              Implies(ok(r), And(r[1].val().requests == a.sim.requests.delete(a.request_id),
                                 same_except(r[1].val(), a.sim, ["requests", "r_locations", "r_search"]),
                                 inv08(r[1].val(), ["request"])))), ("C08", "C03"))
    s.no_raise(("C08",))

    # ------------------------------------------------------------ Membership
    MB = "nrel/hive/model/membership.py::Membership."
    s = R.spec(MB + "grant_access_to_membership")
    s.opaque = True
    s.ensures("def", lambda a, r: Iff(r, grants(a.self, a.other_membership)), ("C10",)).no_raise(("C10",))

    # Station ops used opaquely by the states (verified in leaf_station)
    for m in ("checkout_charger", "return_charger", "enqueue_for_charger", "dequeue_for_charger", "has_available_charger",
              "get_available_chargers"):
        R.specs[STN + m].opaque = True
    BASE = "nrel/hive/model/base.py::Base."
    for m in ("checkout_stall", "return_stall"):
        R.specs[BASE + m].opaque = True

    # ------------------------------------------------------------ apply_new_vehicle_state
    s = R.spec(VS + "vehicle_state.py::VehicleStateABC.apply_new_vehicle_state", arg_types={"new_state": VST()})
    s.opaque = True
    s.requires("inv", lambda a: inv08(a.sim, ["vehicle"]))
    s.requires("ids", lambda a: ids_ok(a.sim))
    s.ensures("sets_state", lambda a, r: And(Or(ok(r), failed(r)),
              Implies(Not(a.sim.vehicles.has(a.vehicle_id)), failed(r)),
              Implies(ok(r), And(a.sim.vehicles.has(a.vehicle_id),
                                 r[1].val().vehicles == veh_with_state(a.sim, a.vehicle_id, a.new_state),
                                 same_except(r[1].val(), a.sim, ["vehicles"]),
                                 inv08(r[1].val(), ["vehicle"])))), ("C02", "C08"))
    s.no_raise(("C02",))

    # ------------------------------------------------------------ exit contracts
    def exit_spec(cname, expect):
        s = R.spec(key(cname, "exit"), arg_types={"next_state": VST()})
        s.opaque = True
        s.requires("wf", WF_PRE)
        s.ensures("releases_exactly", lambda a, r: Implies(ok(r), expect(a, r[1].val())), ("C02", "C09", "C17"))
        s.ensures("wf_kept", WF_KEPT, ("C08",))
        s.ensures("shape", SHAPE, ("C09",))
        s.no_raise(("C02",))
        if cname in ("ReserveBase", "ChargingBase"):
            s.unfold = {"wfb"}
        return s

    for cname in SIMPLE_EXIT:
        exit_spec(cname, lambda a, s2: s2 == a.sim)

    exit_spec("ChargingStation", lambda a, s2: And(
        a.sim.stations.has(a.self.station_id),
        Implies(a.sim.stations.get(a.self.station_id).val().state.has(a.self.charger_id),
                a.sim.stations.get(a.self.station_id).val().state.get(a.self.charger_id).val().available_chargers
                < a.sim.stations.get(a.self.station_id).val().state.get(a.self.charger_id).val().total_chargers),
        s2.stations == inc_avail(a.sim.stations, a.self.station_id, a.self.charger_id),
        same_except(s2, a.sim, ["stations"])))

    exit_spec("ChargeQueueing", lambda a, s2: And(
        a.sim.stations.has(a.self.station_id),
        s2.stations == dec_enq(a.sim.stations, a.self.station_id, a.self.charger_id),
        same_except(s2, a.sim, ["stations"])))

    exit_spec("ReserveBase", lambda a, s2: And(
        a.sim.bases.has(a.self.base_id),
        a.sim.bases.get(a.self.base_id).val().available_stalls + 1 <= a.sim.bases.get(a.self.base_id).val().total_stalls,
        s2.bases == stall(a.sim.bases, a.self.base_id, 1),
        same_except(s2, a.sim, ["bases"])))

    def cb_exit(a, s2):
        base = a.sim.bases.get(a.self.base_id).val()
        sid = base.station_id.val()
        stn = a.sim.stations.get(sid).val()
        return And(a.sim.bases.has(a.self.base_id), base.station_id.is_some(), a.sim.stations.has(sid),
                   base.available_stalls + 1 <= base.total_stalls,
                   Implies(stn.state.has(a.self.charger_id),
                           stn.state.get(a.self.charger_id).val().available_chargers < stn.state.get(a.self.charger_id).val().total_chargers),
                   s2.bases == stall(a.sim.bases, a.self.base_id, 1),
                   s2.stations == inc_avail(a.sim.stations, sid, a.self.charger_id),
                   same_except(s2, a.sim, ["bases", "stations"]))
    exit_spec("ChargingBase", cb_exit)

    s = exit_spec("DispatchTrip", lambda a, s2: And(
        s2.requests == set_record(a.sim.requests, a.self.request_id, None, None),
        same_except(s2, a.sim, ["requests"])))
    # leaving a dispatch trip is never refused: the record is always cleared when the vehicle is redirected or stopped
    s.ensures("never_refuses", lambda a, r: Or(ok(r), failed(r)), ("C17",))

    # ServicingTrip: refuses to be interrupted while the route is not exhausted (C03 / C09)
    s = exit_spec("ServicingTrip", lambda a, s2: s2 == a.sim)
    s.ensures("no_diversion", lambda a, r: And(r[0].is_none(), Iff(r[1].is_some(), a.self.route.len() == 0)), ("C03",))

    # ------------------------------------------------------------ enter contracts
    GROUP_PROPS = {"resources": ("C02", "C09"), "location": ("C07",), "access": ("C10",), "record": ("C17",)}

    def enter_spec(cname, allowed, expect, extra_props=()):
        """allowed(a, n): the activity the vehicle ends up in; expect(a, s2, n) -> {group: condition}:
        resources taken and everything else equal (C02/C09), location (C07), access (C10), record (C17)"""
        s = R.spec(key(cname, "enter"))
        s.opaque = True
        s.requires("wf", WF_PRE)

        def mk(group):
            def post(a, r):
                s2 = r[1].val()
                n = s2.vehicles.get(a.self.vehicle_id).val().vehicle_state
                e = expect(a, s2, n)
                if not isinstance(e, dict):
                    e = {"resources": e}
                conds = [e.get(group, True)]
                if group == "resources":
                    conds = [a.sim.vehicles.has(a.self.vehicle_id), allowed(a, n)] + conds
                return Implies(ok(r), And(*conds))
            return post
        for g, props in GROUP_PROPS.items():
            s.ensures(f"enter_{g}", mk(g), props + (tuple(extra_props) if g == "resources" else ()))
        s.ensures("instance", E_INST, ("C09",))
        s.ensures("wf_kept", WF_KEPT, ("C08",))
        s.ensures("shape", SHAPE, ("C09",))
        s.no_raise(("C02",))
        if cname in ("ReserveBase", "ChargingBase"):
            s.unfold = {"wfb"}
        return s

    def veh(a):
        return a.sim.vehicles.get(a.self.vehicle_id).val()

    def only_vehicle_state(a, s2, n):
        return And(s2.vehicles == veh_with_state(a.sim, a.self.vehicle_id, n), same_except(s2, a.sim, ["vehicles"]))

    for cname in ("Idle", "OutOfService"):
        enter_spec(cname, (lambda cname: lambda a, n: same_up_to_instance(n, a.self, cname))(cname), only_vehicle_state)

    enter_spec("Repositioning", lambda a, n: same_up_to_instance(n, a.self, "Repositioning"),
               lambda a, s2, n: {"resources": only_vehicle_state(a, s2, n), "location": route_ok(a.self.route, geoid(veh(a)))})

    def cs_enter_expect(a, s2, n, sid=None, cid=None):
        nn = n.as_a("ChargingStation")
        stn = a.sim.stations.get(nn.station_id).val()
        return {"location": geoid(veh(a)) == geoid(stn),
                "access": grants(stn.membership, veh(a).membership),
                "resources": And(a.sim.stations.has(nn.station_id),
                                 stn.state.has(nn.charger_id),
                                 stn.state.get(nn.charger_id).val().available_chargers > 0,
                                 s2.stations == dec_avail(a.sim.stations, nn.station_id, nn.charger_id),
                                 s2.vehicles == veh_with_state(a.sim, a.self.vehicle_id, n),
                                 same_except(s2, a.sim, ["vehicles", "stations"]))}
    enter_spec("ChargingStation", lambda a, n: same_up_to_instance(n, a.self, "ChargingStation"), cs_enter_expect)

    def cq_enter_expect(a, s2, n):
        stn = a.sim.stations.get(a.self.station_id).val()
        return {"location": geoid(veh(a)) == geoid(stn),
                "access": grants(stn.membership, veh(a).membership),
                "resources": And(a.sim.stations.has(a.self.station_id),
                                 s2.stations == inc_enq(a.sim.stations, a.self.station_id, a.self.charger_id),
                                 s2.vehicles == veh_with_state(a.sim, a.self.vehicle_id, n),
                                 same_except(s2, a.sim, ["vehicles", "stations"]))}
    enter_spec("ChargeQueueing", lambda a, n: same_up_to_instance(n, a.self, "ChargeQueueing"), cq_enter_expect)

    def rb_enter_expect(a, s2, n):
        base = a.sim.bases.get(a.self.base_id).val()
        return {"location": geoid(veh(a)) == geoid(base),
                "access": grants(base.membership, veh(a).membership),
                "resources": And(a.sim.bases.has(a.self.base_id),
                                 base.available_stalls >= 1,
                                 s2.bases == stall(a.sim.bases, a.self.base_id, -1),
                                 s2.vehicles == veh_with_state(a.sim, a.self.vehicle_id, n),
                                 same_except(s2, a.sim, ["vehicles", "bases"]))}
    enter_spec("ReserveBase", lambda a, n: same_up_to_instance(n, a.self, "ReserveBase"), rb_enter_expect)

    def cb_enter_expect(a, s2, n):
        base = a.sim.bases.get(a.self.base_id).val()
        sid = base.station_id.val()
        stn = a.sim.stations.get(sid).val()
        return {"location": geoid(veh(a)) == geoid(base),                 # C07 (F3)
                "access": grants(base.membership, veh(a).membership),
                "resources": And(a.sim.bases.has(a.self.base_id), base.station_id.is_some(), a.sim.stations.has(sid),
                                 base.available_stalls >= 1,
                                 stn.state.has(a.self.charger_id),
                                 stn.state.get(a.self.charger_id).val().available_chargers > 0,
                                 s2.bases == stall(a.sim.bases, a.self.base_id, -1),
                                 s2.stations == dec_avail(a.sim.stations, sid, a.self.charger_id),
                                 s2.vehicles == veh_with_state(a.sim, a.self.vehicle_id, n),
                                 same_except(s2, a.sim, ["vehicles", "bases", "stations"]))}
    enter_spec("ChargingBase", lambda a, n: same_up_to_instance(n, a.self, "ChargingBase"), cb_enter_expect)

    def ds_allowed(a, n):
        nn = n.as_a("ChargingStation")
        return Or(same_up_to_instance(n, a.self, "DispatchStation"),
                  And(n.is_a("ChargingStation"), nn.vehicle_id == a.self.vehicle_id, nn.station_id == a.self.station_id,
                      nn.charger_id == a.self.charger_id))

    def ds_enter_expect(a, s2, n):
        stn = a.sim.stations.get(a.self.station_id).val()
        cs = cs_enter_expect(a, s2, n)
        return {"access": grants(stn.membership, veh(a).membership),
                "location": And(Implies(n.is_a("DispatchStation"), route_ok(a.self.route, geoid(veh(a)), geoid(stn))),
                                Implies(n.is_a("ChargingStation"), cs["location"])),
                "resources": And(a.sim.stations.has(a.self.station_id),
                                 Implies(n.is_a("DispatchStation"), only_vehicle_state(a, s2, n)),
                                 Implies(n.is_a("ChargingStation"), cs["resources"]))}
    enter_spec("DispatchStation", ds_allowed, ds_enter_expect)

    def db_enter_expect(a, s2, n):
        base = a.sim.bases.get(a.self.base_id).val()
        return {"access": grants(base.membership, veh(a).membership),
                "location": route_ok(a.self.route, geoid(veh(a)), geoid(base)),
                "resources": And(a.sim.bases.has(a.self.base_id), only_vehicle_state(a, s2, n))}
    enter_spec("DispatchBase", lambda a, n: same_up_to_instance(n, a.self, "DispatchBase"), db_enter_expect)

    def dt_enter_expect(a, s2, n):
        req = a.sim.requests.get(a.self.request_id).val()
        rec = s2.requests.get(a.self.request_id).val()
        return {"access": grants(req.membership, veh(a).membership),
                "location": route_ok(a.self.route, geoid(veh(a)), geoid(req)),
                "record": And(s2.requests.has(a.self.request_id), rec.dispatched_vehicle == some(a.self.vehicle_id)),
                "resources": And(a.sim.requests.has(a.self.request_id),
                                 s2.requests == set_record(a.sim.requests, a.self.request_id, a.self.vehicle_id, a.sim.sim_time),
                                 s2.vehicles == veh_with_state(a.sim, a.self.vehicle_id, n),
                                 same_except(s2, a.sim, ["vehicles", "requests"]))}
    enter_spec("DispatchTrip", lambda a, n: same_up_to_instance(n, a.self, "DispatchTrip"), dt_enter_expect)
