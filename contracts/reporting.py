"""C19: station load events — per station and step the reported load is the sum of that step's charge events there."""
import z3
from pyvc.values import *
from pyvc.tys import *
from .common import *
from .roads import at

VEO = "nrel/hive/reporting/vehicle_event_ops.py::"
P = ("C19",)


def register(R):
    world = R.world
    SIM = world.class_ty("SimulationState")
    RT = world.class_ty("ReportType")
    REP = AbstractTy("Report")
    RD = AbstractTy("ReportDict")
    REPS = SeqTy(REP)
    ACC = MapTy(StrT, TupleTy([RealT, StrT]))
    R.attr("Report", "report_type", RT)
    R.attr("Report", "report", RD)
    R.attr("ReportDict", "[station_id]", StrT)
    R.attr("ReportDict", "[energy]", RealT)
    R.attr("ReportDict", "[energy_units]", StrT)
    rtype = iface("Report", "report_type", RT)
    rdict = iface("Report", "report", RD)
    f_station = lambda r: iface("ReportDict[station_id]", "", StrT)(rdict(r)) if False else _fld("station_id", StrT)(rdict(r))
    CHARGE = Sym(RT, RT.const("VEHICLE_CHARGE_EVENT"))

    def _fld(key, ty):
        ex = uf("__ex__")
        return lambda d: ex.uf_apply(f"ReportDict[{key}]", [d], ty)

    def _has(key):
        ex = uf("__ex__")
        return lambda d: ex.uf_apply(f"ReportDict.has[{key}]", [d], BoolT)

    station_of = lambda r: _fld("station_id", StrT)(rdict(r))
    energy_of = lambda r: _fld("energy", RealT)(rdict(r))
    units_of = lambda r: _fld("energy_units", StrT)(rdict(r))
    is_charge = lambda r: rtype(r) == CHARGE

    def charge_shape(r):
        """a charge event carries station, energy and unit (vehicle_charge_event's report contract)"""
        d = rdict(r)
        return Implies(is_charge(r), And(_has("station_id")(d), _has("energy")(d), _has("energy_units")(d)))

    # ghost: load(reports, k, s) = sum of the energies of the charge events at station s among the first k reports
    _load = z3.Function("ghost_station_load", REPS.sort, z3.IntSort(), Str, z3.RealSort())

    def load(rs, k, s):
        k = k if isinstance(k, Sym) else lift(k)
        return Sym(RealT, _load(rs.e, k.e, s.e))

    def load_def(rs):
        k, s = bound(IntT, "k_ld"), bound(StrT, "s_ld")
        return And(forall([s], load(rs, 0, s) == 0),
                   forall([k, s], Implies(And(k >= 0, k < rs.len()), load(rs, k + 1, s) == load(rs, k, s) + Ite(
                       And(is_charge(at(rs, k)), station_of(at(rs, k)) == s), energy_of(at(rs, k)), 0))))

    def shapes(rs):
        k = bound(IntT, "k_sh")
        return forall([k], Implies(And(k >= 0, k < rs.len()), charge_shape(at(rs, k))))

    # ---- the fold step
    k_add = VEO + "construct_station_load_events._add"
    s = R.spec(k_add, arg_types={"acc": ACC, "report": REP}, ret=ACC)
    s.outer_arg_types = {"reports": REPS, "sim": SIM}
    s.requires("shape", lambda a: charge_shape(a.report))

    def add_post(a, r):
        sid = station_of(a.report)
        o = bound(StrT, "o_ad")
        old = a.acc.get(sid)
        return And(Implies(Not(is_charge(a.report)), r == a.acc),
                   Implies(is_charge(a.report), And(
                       forall([o], Implies(o != sid, r.get(o) == a.acc.get(o))),
                       r.has(sid), r.get(sid).val()[0] == Ite(old.is_some(), old.val()[0], 0) + energy_of(a.report),
                       r.get(sid).val()[1] == units_of(a.report))))
    s.ensures("adds_the_event_to_its_station_only", add_post, P)
    s.no_raise(P)

    # ---- the whole function
    k_c = VEO + "construct_station_load_events"
    s = R.spec(k_c, arg_types={"reports": REPS}, ret=REPS)
    s.requires("shapes", lambda a: shapes(a.reports))
    s.ghost_definition("station_load", lambda a: load_def(a.reports))
    str_of_real = lambda x: uf("__ex__").uf_apply("str_of_real", [x], StrT)

    def tr_post(a, r):
        acc = a.acc
        sx, kx = bound(StrT, "s_tr"), bound(IntT, "k_tr")
        return And(forall([kx], Implies(And(kx >= 0, kx < r.len()), And(
                       rtype(at(r, kx)) == Sym(RT, RT.const("STATION_LOAD_EVENT")), acc.has(station_of(at(r, kx))),
                       _fld("energy_text", StrT)(rdict(at(r, kx))) == str_of_real(acc.get(station_of(at(r, kx))).val()[0])))),
                   forall([sx], Implies(acc.has(sx), exists([kx], And(kx >= 0, kx < r.len(), station_of(at(r, kx)) == sx)))))
    t = R.spec(VEO + "construct_station_load_events._to_reports", arg_types={"acc": ACC}, ret=REPS)
    t.opaque = True
    t.outer_arg_types = {"reports": REPS, "sim": SIM}
    t.assume_only("tuple(map(_cast_as_report, acc.keys())): one report per key of the accumulator, built by _cast_as_report "
                  "(station_id = key, energy = str(accumulated energy)); Report values are not a solver sort, so the map over the "
                  "keys is stated, not executed")
    t.ensures("one_report_per_station", tr_post)

    def c_post(a, r):
        sx, kx = bound(StrT, "s_cp"), bound(IntT, "k_cp")
        n = a.reports.len()
        return And(
            # every report is the load of a station: the sum of the step's charge events there
            forall([kx], Implies(And(kx >= 0, kx < r.len()),
                                 _fld("energy_text", StrT)(rdict(at(r, kx))) == str_of_real(load(a.reports, n, station_of(at(r, kx)))))),
            # every station of the simulation is reported
            forall([sx], Implies(a.sim.stations.has(sx), exists([kx], And(kx >= 0, kx < r.len(), station_of(at(r, kx)) == sx)))))
    s.ensures("load_is_sum_of_the_steps_charge_events", c_post, P)
    s.no_raise(P)

    def inv0(acc, i, xs, env):
        sx = bound(StrT, "s_i0")
        return forall([sx], Ite(acc.has(sx), acc.get(sx).val()[0] == load(env.reports, i, sx), load(env.reports, i, sx) == 0))
    R.loop(k_c, "reduce", 0, acc_type=ACC, props=P, invariant=inv0)

    def inv1(acc, i, xs, env):
        sx, j = bound(StrT, "s_i1"), bound(IntT, "j_i1")
        n = env.reports.len()
        acc0 = env.reported_charge_events_accumulator
        return And(forall([sx], Ite(acc.has(sx), acc.get(sx).val()[0] == load(env.reports, n, sx), load(env.reports, n, sx) == 0)),
                   forall([sx], Implies(acc0.has(sx), acc.has(sx))),
                   forall([j], Implies(And(j >= 0, j < i), acc.has(at(xs, j)))))
    R.loop(k_c, "reduce", 1, acc_type=ACC, props=P, invariant=inv1)
