"""Contracts for ChargerState, Base, Station operations (leaf layer of C02/C05/C10)."""
from pyvc.values import *
from pyvc.tys import *

CS = "nrel/hive/model/station/charger_state.py::ChargerState."
BASE = "nrel/hive/model/base.py::Base."
STN = "nrel/hive/model/station/station.py::Station."


def ok(r):
    """ErrorOr result r=(err, val): no error and a value"""
    return And(r[0].is_none(), r[1].is_some())


def failed(r):
    return And(r[0].is_some(), r[1].is_none())


def nothing(r):
    return And(r[0].is_none(), r[1].is_none())


def register(R):
    P = ("C02",)
    # ---------------- ChargerState
    s = R.spec(CS + "has_available_charger")
    s.ensures("def", lambda a, r: Iff(r, a.self.available_chargers > 0), P).no_raise(P)

    s = R.spec(CS + "decrement_available_chargers")
    s.ensures("fail_iff_none_free", lambda a, r: Iff(a.self.available_chargers == 0, failed(r)), P)
    s.ensures("ok_value", lambda a, r: Implies(a.self.available_chargers != 0,
              And(r[0].is_none(), r[1] == a.self._replace(available_chargers=a.self.available_chargers - 1))), P)
    s.no_raise(P)

    s = R.spec(CS + "increment_available_chargers")
    s.ensures("fail_iff_full", lambda a, r: Iff(a.self.available_chargers >= a.self.total_chargers, failed(r)), P)
    s.ensures("ok_value", lambda a, r: Implies(a.self.available_chargers < a.self.total_chargers,
              And(r[0].is_none(), r[1] == a.self._replace(available_chargers=a.self.available_chargers + 1))), P)
    s.no_raise(P)

    s = R.spec(CS + "increment_enqueued_vehicles")
    s.ensures("value", lambda a, r: r == a.self._replace(enqueued_vehicles=a.self.enqueued_vehicles + 1), P).no_raise(P)

    s = R.spec(CS + "decrement_enqueued_vehicles")
    s.ensures("fail_iff_zero", lambda a, r: Iff(a.self.enqueued_vehicles == 0, failed(r)), P)
    s.ensures("ok_value", lambda a, r: Implies(a.self.enqueued_vehicles != 0,
              And(r[0].is_none(), r[1] == a.self._replace(enqueued_vehicles=a.self.enqueued_vehicles - 1))), P)
    s.no_raise(P)

    s = R.spec(CS + "add_chargers")
    s.ensures("value", lambda a, r: r == a.self._replace(total_chargers=a.self.total_chargers + a.charger_count,
                                                           available_chargers=a.self.available_chargers + a.charger_count), P).no_raise(P)

    # ---------------- Base
    s = R.spec(BASE + "checkout_stall", ret=OptTy(R.world.class_ty("Base")))
    s.ensures("none_iff_no_stall", lambda a, r: Iff(a.self.available_stalls < 1, r.is_none()), P)
    s.ensures("value", lambda a, r: Implies(a.self.available_stalls >= 1,
              r == some(a.self._replace(available_stalls=a.self.available_stalls - 1))), P)
    s.no_raise(P)

    s = R.spec(BASE + "return_stall")
    s.ensures("fail_iff_full", lambda a, r: Iff(a.self.available_stalls + 1 > a.self.total_stalls, failed(r)), P)
    s.ensures("value", lambda a, r: Implies(a.self.available_stalls + 1 <= a.self.total_stalls,
              And(r[0].is_none(), r[1] == some(a.self._replace(available_stalls=a.self.available_stalls + 1)))), P)
    s.no_raise(P)

    # ---------------- Station: exactly one field of exactly one charger state changes
    def upd(a, f):
        cs = a.self.state.get(a.charger_id).val()
        return a.self._replace(state=a.self.state.set(a.charger_id, f(cs)))

    def present(a):
        return a.self.state.has(a.charger_id)

    s = R.spec(STN + "checkout_charger")
    s.ensures("absent_noop", lambda a, r: Implies(Not(present(a)), And(r[0].is_none(), r[1] == some(a.self))), P)
    s.ensures("none_free", lambda a, r: Implies(And(present(a), a.self.state.get(a.charger_id).val().available_chargers <= 0), nothing(r)), P)
    s.ensures("taken", lambda a, r: Implies(And(present(a), a.self.state.get(a.charger_id).val().available_chargers > 0),
              And(r[0].is_none(), r[1] == some(upd(a, lambda cs: cs._replace(available_chargers=cs.available_chargers - 1))))), P)
    s.no_raise(P)

    s = R.spec(STN + "return_charger")
    s.ensures("absent_noop", lambda a, r: Implies(Not(present(a)), And(r[0].is_none(), r[1] == some(a.self))), P)
    s.ensures("full_fails", lambda a, r: Implies(And(present(a), a.self.state.get(a.charger_id).val().available_chargers >= a.self.state.get(a.charger_id).val().total_chargers), failed(r)), P)
    s.ensures("returned", lambda a, r: Implies(And(present(a), a.self.state.get(a.charger_id).val().available_chargers < a.self.state.get(a.charger_id).val().total_chargers),
              And(r[0].is_none(), r[1] == some(upd(a, lambda cs: cs._replace(available_chargers=cs.available_chargers + 1))))), P)
    s.no_raise(P)

    s = R.spec(STN + "enqueue_for_charger")
    s.ensures("absent_noop", lambda a, r: Implies(Not(present(a)), And(r[0].is_none(), r[1] == some(a.self))), P)
    s.ensures("enqueued", lambda a, r: Implies(present(a),
              And(r[0].is_none(), r[1] == some(upd(a, lambda cs: cs._replace(enqueued_vehicles=cs.enqueued_vehicles + 1))))), P)
    s.no_raise(P)

    s = R.spec(STN + "dequeue_for_charger")
    s.ensures("absent_noop", lambda a, r: Implies(Not(present(a)), And(r[0].is_none(), r[1] == some(a.self))), P)
    s.ensures("empty_fails", lambda a, r: Implies(And(present(a), a.self.state.get(a.charger_id).val().enqueued_vehicles == 0), failed(r)), P)
    s.ensures("dequeued", lambda a, r: Implies(And(present(a), a.self.state.get(a.charger_id).val().enqueued_vehicles != 0),
              And(r[0].is_none(), r[1] == some(upd(a, lambda cs: cs._replace(enqueued_vehicles=cs.enqueued_vehicles - 1))))), P)
    s.no_raise(P)

    s = R.spec(STN + "has_available_charger")
    s.ensures("def", lambda a, r: Iff(r, And(present(a), a.self.state.get(a.charger_id).val().available_chargers > 0)), P).no_raise(P)

    s = R.spec(STN + "get_available_chargers")
    s.ensures("def", lambda a, r: r == Ite(present(a), a.self.state.get(a.charger_id).val().available_chargers, 0), P).no_raise(P)

    s = R.spec(STN + "receive_payment")
    s.ensures("value", lambda a, r: r == a.self._replace(balance=a.self.balance + a.currency_received), ("C05",)).no_raise(("C05",))
