"""Per-site justifications for unordered-iteration sites that no generic rule discharges (DESIGN 4 C01).
key: (path suffix, function, source text) -> (rule, justification).  A site listed here is discharged *by this
argument*; a site found by the scanner that is neither discharged by a rule nor listed fails."""

TABLE = {
    ("dispatcher/instruction/instruction_ops.py", "trip_plan_all_requests_allow_pooling", "req_ids_unique"):
        ("t", "the fold only concatenates ids into the *text* of an error message; whether a message is returned (the decision) "
              "does not depend on the order"),
    ("model/membership.py", "Membership.add_membership", "self.memberships"):
        ("c", "the list built from the set is only passed to frozenset() on the next line"),
    ("model/membership.py", "Membership.as_tuple", "self.memberships"):
        ("d", "exemption of the property: order in which the members of a set-valued field are printed (used for report fields)"),
    ("model/membership.py", "Membership.__str__", "self.memberships"):
        ("d", "exemption of the property: printing of a membership list"),
    ("model/membership.py", "Membership.to_json", "self.memberships"):
        ("d", "exemption of the property: printing of a membership list in report records"),
    ("model/station/station.py", "Station.update_prices", "new_prices.items()"):
        ("b", "fold of station_state_optional_update over distinct plug ids: each step rewrites one key of Station.state; "
              "updates of distinct keys commute (L2); no float accumulation"),
    ("reporting/reporter_ops.py", "log_station_capacities", "station.state.values()"):
        ("t", "written once to station_capacities.csv at start-up, not part of the entity states, events or summary statistics "
              "the property compares (a float sum: order may change its last bit)"),
    ("reporting/vehicle_event_ops.py", "vehicle_move_event", "next_vehicle.energy.keys()"):
        ("t", "guarded by `len(keys) > 1 -> raise`: the collection has at most one element where it is folded / indexed"),
    ("reporting/vehicle_event_ops.py", "construct_station_load_events", "acc.keys()"):
        ("d", "exemption of the property: order of the station-load records written within one time step"),
    ("state/simulation_state/update/charging_price_update.py", "ChargingPriceUpdate.build", "table.keys()"):
        ("b", "fold inserting one default entry per distinct key into a Map (point updates on distinct keys commute)"),
    ("state/simulation_state/update/charging_price_update.py", "_map_to_station_ids", "h3.h3_to_children(k, sim.sim_h3_search_resolution)"):
        ("b", "every station found under any child receives the same entry this_update[k]: writes of one value commute"),
    ("state/simulation_state/update/step_simulation.py", "StepSimulation.get_instruction_generator", "self.instruction_generators.values()"):
        ("t", "API helper outside the step function: generator names are class names, so at most one generator matches a class"),
    ("state/simulation_state/update/step_simulation_ops.py", "perform_vehicle_state_updates", "simulation_state.vehicles.values()"):
        ("a", "the tuple is passed directly to _sort_by_vehicle_state, proved (C18 obligations same_vehicles, queue_last_fifo) to order "
              "it by a total key ending with the vehicle id"),
    ("util/dict_ops.py", "DictOps.iterate_vals", "xs.values()"):
        ("a", "sorted by the caller's key: every call site passes a key ending with the entity id "
              "(Dispatcher: (-r.value, r.id); assignment_ops._sort_enqueue_time: (enqueue_time, id)) — checked by the call-site rule"),
    ("util/dict_ops.py", "DictOps.iterate_items", "xs.items()"):
        ("a", "sorted by `key if key is not None else p[0]`: no call site passes a key (checked), so the key is the map key"),
    ("util/dict_ops.py", "DictOps.merge_dicts", "new.items()"):
        ("b", "point updates of a Map on the distinct keys of `new` commute"),
}
