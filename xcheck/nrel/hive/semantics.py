"""Tiny functions exercising the Python semantics the pyvc encoding models (DESIGN 2.4).  NOT part of NREL/hive: they are
executed natively by CPython and symbolically by pyvc on the same concrete inputs (tools/xcheck.py); any disagreement is a
checker error.  Each function uses only constructs the verified kernel uses."""
from typing import Optional, Tuple


def floordiv(x: int, y: int) -> int:
    return x // y


def mod(x: int, y: int) -> int:
    return x % y


def truediv(x: int, y: int) -> float:
    return x / y


def int_trunc(x: float) -> int:
    return int(x)


def int_of_product(x: float, y: float) -> int:
    return int(x * y * 3600)


def float_floordiv(x: float, y: float) -> float:
    return x // y


def neg_abs(x: int) -> int:
    return abs(-x)


def minmax(x: int, y: int, z: int) -> int:
    return max(min(x, y), z)


def chain_cmp(x: int, y: int, z: int) -> bool:
    return x <= y < z


def wraparound(start: int, end: int, x: int) -> bool:
    if start <= end:
        return start <= x < end
    else:
        return start <= x or x < end


def truthy_int(x: int) -> bool:
    return True if x else False


def truthy_float(x: float) -> bool:
    return True if x else False


def truthy_str(s: str) -> bool:
    return True if s else False


def truthy_opt(x: Optional[int]) -> bool:
    return True if x else False


def truthy_tuple(xs: Tuple[int, ...]) -> bool:
    return True if xs else False


def or_value(x: int, y: int) -> int:
    return x or y


def and_value(x: int, y: int) -> int:
    return x and y


def opt_default(x: Optional[int], d: int) -> int:
    return x if x is not None else d


def opt_or(x: Optional[int], d: int) -> int:
    return x or d


def not_none_and_pos(x: Optional[int]) -> bool:
    return x is not None and x > 0


def ifexp(c: bool, x: int, y: int) -> int:
    return x if c else y


def nested_if(x: int, y: int) -> int:
    if x > y:
        r = x - y
    elif x == y:
        r = 0
    else:
        r = y - x
    return r * 2 + 1


def tuple_concat_len(xs: Tuple[int, ...], y: int) -> int:
    return len(xs + (y,))


def tuple_head_or(xs: Tuple[int, ...], d: int) -> int:
    return xs[0] if len(xs) > 0 else d


def tuple_last(xs: Tuple[int, ...]) -> int:
    return xs[-1]


def tuple_tail_len(xs: Tuple[int, ...]) -> int:
    return len(xs[1:])


def tuple_init_len(xs: Tuple[int, ...]) -> int:
    return len(xs[:-1])


def tuple_index(xs: Tuple[int, ...], i: int) -> int:
    return xs[i]


def tuple_contains(xs: Tuple[int, ...], y: int) -> bool:
    return y in xs


def str_eq(a: str, b: str) -> bool:
    return a == b


def str_ne_empty(a: str) -> bool:
    return a != ""


def clamp(x: float, lo: float, hi: float) -> float:
    return min(max(x, lo), hi)


def ratio(x: float, y: float) -> float:
    return x / y if y != 0 else 0.0


def pair_swap(x: int, y: int) -> Tuple[int, int]:
    return (y, x)


def pair_lex_lt(a: int, b: int, c: int, d: int) -> bool:
    return (a, b) < (c, d)


def early_return(x: int) -> int:
    if x < 0:
        return -1
    if x == 0:
        return 0
    return 1


def aug_assign(x: int, y: int) -> int:
    t = x
    t += y
    t *= 2
    t -= 1
    return t


def bool_arith(a: bool, b: bool) -> int:
    return int(a) + int(b)


def raise_on_zero(x: int) -> int:
    if x == 0:
        raise ValueError("zero")
    return 10 // x


def try_except(x: int, y: int) -> int:
    try:
        return x // y
    except ZeroDivisionError:
        return -1


def for_literal(x: int) -> int:
    acc = 0
    for k in (1, 2, 3):
        acc = acc + k * x
    return acc


def hours_to_seconds(hours: float) -> int:
    seconds = hours * 3600
    return int(seconds)


def float_eq_zero(x: float) -> bool:
    return x == 0.0


def floordiv_pos(x: int, y: int) -> int:
    if y <= 0:
        return 0
    return x // y


def mod_pos(x: int, y: int) -> int:
    if y <= 0:
        return 0
    return x % y


def mod_const(x: int) -> int:
    return x % 86400


def floordiv_const(x: int) -> int:
    return x // 3600


def float_mod_const(x: float) -> float:
    return x % 60


def int_of_negative(x: float) -> int:
    return int(-x * 1.5)


def tuple_slice_mid(xs: Tuple[int, ...]) -> Tuple[int, ...]:
    return xs[1:2]


def tuple_eq(xs: Tuple[int, ...], y: int) -> bool:
    return xs == (y,)


def opt_is_none_or(x: Optional[int], y: int) -> bool:
    return x is None or x == y


def str_in_tuple(s: str) -> bool:
    return s in ("a", "c")


def sorted_pair(x: int, y: int) -> Tuple[int, int]:
    a, b = (x, y) if x <= y else (y, x)
    return a, b


def while_countdown(x: int) -> int:
    n = 0
    k = 3
    while k > 0:
        n = n + x
        k = k - 1
    return n
