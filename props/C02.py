INFO = {
    "level": "proof",
    "level_text": 'DispatchPoolingTrip._perform_update and .update are verified from their bodies (create_routes assumed as a router interface). Inductive invariant Inv02 (for every station and plug type present: 0 <= free <= installed, installed - free = number of vehicles whose activity holds that plug — directly or through the base it serves —, queue counter = number of vehicles queueing there; for every base: 0 <= free stalls <= total, total - free = vehicles parked or charging there) proved preserved by Update.apply_update for all states. Chain of contracts, each discharged from the real body: ChargerState/Base/Station operations (whole-value postconditions) -> simulation_state_ops -> enter/exit of the 11 non-pooling activities (delta contracts generated from the state descriptor table) -> transition_previous_to_next (recombination with lemma L1) -> charge/move/_perform_update (counts untouched) -> update of each activity -> step_vehicle -> the vehicle-update loop, the two loops of apply_instructions, the driver-update fold (inductive loop invariants) -> StepSimulation.update -> Update.apply_update.',
    "level_note": "counts are an uninterpreted function of the vehicles map constrained by L1 instances (Lean); a base's station_id never changes (ghost function, preserved invariant); ServicingPoolingTrip's _perform_update / update and dispatch_ops.create_routes (the other pooling functions are verified), instruction generators and pre-step updates enter through assumed interface contracts (listed); floats as reals; initial states built by initialisation code are assumed to satisfy Inv02.",
}

from pyvc import lean


def extra_obligations(repo, world, ex, R, tier, timeout_ms):
    return lean.lean_obligations("C02", ["L1_sum_update", "L1'_term_le_sum"])
