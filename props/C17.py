INFO = {
    "level": "proof",
    "level_text": "DispatchTrip.enter sets the request's record to its vehicle, DispatchTrip.exit clears it and is never refused, move() clears it when the vehicle is stopped for lack of energy (after fix F4), transition_previous_to_next always runs the previous activity's exit; no other kernel function writes dispatched_vehicle (frame of the contracts).",
    "level_note": 'the inductive reading (record set => vehicle in DispatchTrip to that request) composes these contracts; pooling trips assumed; `at most one vehicle per request under the built-in dispatcher` depends on Dispatcher._valid_request (not under contract yet).',
}
