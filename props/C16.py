from pyvc import frames

INFO = {
    "level": "proof",
    "level_text": "The frame rule also covers the power-curve and powertrain classes (objects held in env.mechatronics and shared by every step: a store to one of their attributes outside the constructor would make stepping the same saved state twice give different results). For an immutable value, `later code cannot alter an earlier state` is the universal frame condition `modifies nothing`. Two families of obligations, regenerated from the real source on every run: (a) every class reachable from SimulationState through its field annotations is a NamedTuple, a frozen dataclass, an Enum or an immutable builtin (no list/dict/set field); (b) every function of the kernel files contains no store into a value it did not create (attribute/subscript assignment, del, in-place container methods, setattr/__dict__, Map.mutate outside merge_dicts). Together with the symbolic execution of the same functions (which rejects any such store as out of reach) this makes every kernel function a pure function of its arguments, which is also the second sentence of the property.",
    "level_note": "RoadNetwork objects are assumed unmodified after construction; the file-reader objects and the Reporter are stateful by design but are not part of the simulation state (they live in Update / Environment); numpy tables are assumed never written; C extensions (immutables, h3) trusted.",
    "technique": "contract-based: universal frame condition `modifies nothing` discharged per function by a syntactic frame rule over the real AST, plus immutability of the state's value classes",
    "trusted_base": ["immutables.Map / frozenset / tuple are immutable", "frozen dataclasses and NamedTuples cannot be assigned to (object.__setattr__ is scanned for)"],
    "assumptions": ["RoadNetwork instances are not mutated after construction", "DictReaderIterator / Reporter are outside the simulation state", "an augmented assignment `x op= e` on a plain name with no binding that can yield a mutable container (literal, constructor, mutable .get() default, parameter of mutable container type) is taken to rebind an immutable value (int/float/str/tuple/frozenset)"],
    "not_decided": ["`stepping the same saved state twice gives the same result` additionally needs determinism of iteration order (C01) and of the file readers' cursors, which are consumed (they are not part of the saved state)"],
}


def extra_obligations(repo, world, ex, R, tier, timeout_ms):
    return frames.frame_obligations(repo) + frames.immutability_obligations(repo, world)
