INFO = {
    "level": "proof",
    "level_text": "transition_previous_to_next returns a state only if exit and enter both did, otherwise nothing (never a state and an error); every enter/exit/update has the same shape clause; apply_instructions is proved for any number of instructions (two inductive loop invariants) to keep the state well-formed and, for one arbitrary instruction of any class from any activity (loops unrolled), `if the instructed vehicle is exactly as it was, the whole SimulationState is unchanged`; the instruction stack operations are proved to push on the head and pop the head (last generated wins, the driver's instruction is pushed last).",
    "level_note": "instruction generators are an open interface; `one instruction per vehicle` is the precondition of apply_instructions established by StepSimulation.update's loop invariant; uuid4() values are assumed fresh; pooling instruction assumed.",
}
