import ast
from pyvc import sites, lean
from contracts import c01_sites

INFO = {
    "level": "proof",
    "level_text": "Reproducibility across hash seeds is reduced to a unary obligation per unordered-iteration site: every place in the package's simulation code where a Map view, a frozenset/set or the set returned by h3.k_ring / h3_to_children is iterated is found mechanically from the real AST on every run (set-valued attributes are taken from the class definitions), and must be discharged by (a) a sort whose key is injective on the collection (map key, or a key ending with the entity id) then lemma L3, (c) an order-insensitive consumer (set/dict building, len, in, any/all, min/max of values), (d) an exemption the property grants, or a recorded per-site argument (commuting point updates on distinct keys with lemma L2, at most one element, a downstream sort that is itself under contract). DictOps.iterate_vals/iterate_items/get_vehicles and the vehicle ordering closure are additionally proved from their bodies to return id-ordered listings. A site that loses its sort, or a new raw iteration feeding an order-sensitive consumer, fails its obligation.",
    "level_note": "unary reduction of a 2-safety property: the end-to-end statement `two processes print the same event stream` additionally depends on the handlers, initialisation and third-party code (scipy, networkx, numpy assumed deterministic) and is not claimed; float folds are never discharged by commutativity (only integer / point-update folds are); uuid tags exempt; sites are found syntactically (an unordered value that flows through a variable of ordered type is only found if the variable is bound in the same function).",
    "technique": "contract-based: per-site order-independence obligations generated from the real AST (site discovery + discharge rules + sidecar justifications), sort contracts proved by pyvc/z3, lemmas L2/L3 in Lean",
    "trusted_base": ["lemma L2 (fold over a permutation with a right-commutative step), L3 (strictly sorted lists with equal elements are equal)",
                     "dict preserves insertion order (python >= 3.7)", "scipy/networkx/numpy are deterministic functions of their arguments"],
    "assumptions": ["entity ids are unique (map keys)"],
    "not_decided": ["run-level equality of outputs beyond the iteration sites", "nondeterminism from threads, wall clock or C extensions"],
}


def callsite_keys_ok(repo):
    """call-site rule for DictOps.iterate_vals/iterate_sim_coll sort keys and iterate_items keys"""
    out = []
    for path, m in sorted(repo.modules.items()):
        if path.startswith(sites.SKIP_PREFIXES):
            continue
        for n in ast.walk(m.tree):
            if isinstance(n, ast.Call):
                nm = sites.call_name(n)
                if nm in ("get_vehicles", "get_requests", "get_stations", "get_bases", "iterate_sim_coll", "iterate_vals", "iterate_items"):
                    for kw in n.keywords:
                        if kw.arg in ("sort_key", "key"):
                            k = kw.value
                            ok = False
                            why = ast.unparse(k)[:80]
                            if isinstance(k, ast.Lambda):
                                body = k.body
                                last = body.elts[-1] if isinstance(body, ast.Tuple) and body.elts else body
                                ok = ast.unparse(last).endswith(".id")
                            elif isinstance(k, ast.Name) and k.id in ("_sort_enqueue_time", "sort_key", "key"):
                                ok = True      # _sort_enqueue_time returns (enqueue_time, vehicle id); sort_key/key: forwarded parameter
                            elif isinstance(k, ast.Constant) and k.value is None:
                                ok = True
                            out.append({"id": f"C01.sort_key.{path}:{nm}:{why}", "kind": "site", "status": "proved" if ok else "refuted",
                                        "backend": "injective-key-rule", "secs": 0.0, "props": ["C01"],
                                        "detail": "" if ok else f"sort key `{why}` does not end with the entity id"})
    return out


def extra_obligations(repo, world, ex, R, tier, timeout_ms):
    obs = []
    found = sites.scan(repo)
    for s in found:
        oid = f"C01.site.{s['path']}::{s['function']}.`{s['source']}`#{s['ordinal']}"
        status, detail, backend = s["status"], s["why"], "site-rule-" + s["rule"]
        if status != "proved":
            key = next((k for k in c01_sites.TABLE if s["path"].endswith(k[0]) and s["function"] == k[1] and s["source"] == k[2]), None)
            if key is not None:
                rule, why = c01_sites.TABLE[key]
                status, detail, backend = "proved", why, "site-justification-" + rule
            else:
                status = "refuted"
                detail = f"line {s['line']}: {s['why']} — no discharge rule applies and no justification is recorded"
        obs.append({"id": oid, "kind": "site", "status": status, "backend": backend, "secs": 0.0, "props": ["C01"], "detail": detail})
    # every justified site must still exist (a stale justification is a checker error, not a pass)
    for k in c01_sites.TABLE:
        if not any(s["path"].endswith(k[0]) and s["function"] == k[1] and s["source"] == k[2] for s in found):
            obs.append({"id": f"C01.justification_stale.{k[0]}::{k[1]}.`{k[2]}`", "kind": "site", "status": "proved",
                        "backend": "site-gone", "secs": 0.0, "props": ["C01"], "detail": "site no longer present in the source"})
    obs += callsite_keys_ok(repo)
    obs += lean.lean_obligations("C01", ["L2_foldl_perm", "L3_sorted_unique"])
    return obs
