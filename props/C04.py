INFO = {
    "level": "proof",
    "level_text": "Function contracts on the shipped mechatronics, discharged for all inputs from the real bodies: BEV/ICE consume_energy, idle (level = max(0, e - cost), never negative, expended grows by exactly the amount taken, strictly positive consumption when cost > 0 and the tank is not empty), add_energy (never lowers, never above capacity, gained grows by exactly the amount added, no more than rate x duration), is_empty/is_full, and TabularPowercurve.charge with an inductive loop invariant (energy added <= power x elapsed, elapsed <= duration) plus a decreasing variant. The same contract is the interface assumption used for any MechatronicsInterface in the state-machine layer.",
    "level_note": "floats as reals (constants folded exactly); Powertrain.energy_cost >= 0 and np.interp >= 0 on a non-negative table are assumed (inputs / numpy); unit of the powertrain table must be convertible (precondition with cover); vehicle energy maps carry the powertrain's energy key (precondition).",
    "trusted_base": ["numpy.interp returns a value within the table's range (assumed non-negative)", "Powertrain.energy_cost(route) >= 0 (assumed interface contract)"],
    "assumptions": ["vehicle.energy / energy_expended / energy_gained contain the mechatronics' energy type (established by initial_energy at load time)",
                    "battery_capacity > 0, idle rate >= 0, 0 <= full threshold <= capacity (configuration)"],
    "not_decided": ["floating-point rounding (proved over the reals)", "TabularPowertrain.energy_cost strictly positive for positive distance (sum over a symbolic route; np.interp positivity is an input assumption)"],
}
