"""C14: routes on a street network are fastest paths — admissibility obligations on hive's side of A*."""
import ast, time
import z3

INFO = {
    "level": "proof",
    "level_text": "A* returns a minimum-weight path when its heuristic never over-estimates (networkx's contract, assumed). hive's side is three obligations regenerated from the real source of OSMRoadNetwork on every run: (O1) the speed the heuristic divides by is the maximum over all link speeds (so 3600*gc/S <= 3600*gc/speed of any link: decided with the max/min axioms of the builtins by z3; `min` is refuted with a two-link model); (O2) the cell stored on every node, between which the heuristic measures, is geo_to_h3(latitude, longitude) with latitude read from y/lat and longitude from x/lon; (O3) the edge weight computed when missing equals 3600 * (length/1000) / speed (the statements are extracted from the constructor by target name and evaluated symbolically).",
    "level_note": "optimality itself is relative to networkx.astar_path; geometry assumed: the great-circle distance between two junction cells is a lower bound of any path length between them (triangle inequality, link length >= distance between its ends; node positions are quantised to h3 cells, a sub-cell slack); the constructor's loops mutate graph dictionaries and are not executed by pyvc: the three obligations are semantic rules over its AST.",
    "technique": "contract-based: admissibility obligations generated from the real AST (assignment feeding the heuristic, argument order of geo_to_h3, edge-weight expression) and discharged by z3",
    "trusted_base": ["networkx.astar_path is optimal for an admissible heuristic", "great-circle triangle inequality; link length >= great-circle distance of its ends"],
    "assumptions": ["graph nodes carry x = longitude, y = latitude (osmnx convention) or lat/lon"],
    "not_decided": ["optimality of networkx's A* itself", "sub-cell quantisation slack of junction positions"],
}

PATH = "nrel/hive/model/roadnetwork/osm/osm_roadnetwork.py"


def _ob(oid, ok, detail, secs=0.0, backend="z3+ast-rule"):
    return {"id": "C14." + oid, "kind": "admissibility", "status": "proved" if ok else "refuted", "backend": backend,
            "secs": round(secs, 4), "props": ["C14"], "detail": "" if ok else detail}


def extra_obligations(repo, world, ex, R, tier, timeout_ms):
    obs = []
    m = repo.modules[PATH]
    cls = next(n for n in m.tree.body if isinstance(n, ast.ClassDef) and n.name == "OSMRoadNetwork")
    init = next(n for n in cls.body if isinstance(n, ast.FunctionDef) and n.name == "__init__")
    route = next(n for n in cls.body if isinstance(n, ast.FunctionDef) and n.name == "route")
    heur = next(n for n in ast.walk(route) if isinstance(n, ast.FunctionDef) and n.name == "_astar_cost_heuristic")
    # ---- O1: which attribute does the heuristic divide by, and how is it computed?
    t0 = time.time()
    divs = [n for n in ast.walk(heur) if isinstance(n, ast.BinOp) and isinstance(n.op, ast.Div)]
    attr = None
    for d in divs:
        if isinstance(d.right, ast.Attribute) and isinstance(d.right.value, ast.Name) and d.right.value.id == "self":
            attr = d.right.attr
    if attr is None:
        obs.append(_ob("O1.heuristic_speed_bounds_all_links", False, "the heuristic does not divide the distance by an attribute of the network"))
    else:
        rhs = None
        for n in ast.walk(init):
            if isinstance(n, (ast.Assign, ast.AnnAssign)):
                tg = n.targets[0] if isinstance(n, ast.Assign) else n.target
                if isinstance(tg, ast.Attribute) and tg.attr == attr:
                    rhs = n.value
        fn = rhs.func.id if isinstance(rhs, ast.Call) and isinstance(rhs.func, ast.Name) else None
        over_speeds = rhs is not None and "speed_kmph" in ast.unparse(rhs) and "links.values()" in ast.unparse(rhs)
        # VC: for all link speeds s1, s2 > 0 (two links suffice to separate max from min), S = fn(s1, s2) must satisfy
        # S >= s1 /\ S >= s2; then gc/S <= gc/s for every link
        s1, s2, gc = z3.Reals("s1 s2 gc")
        S = {"max": z3.If(s1 >= s2, s1, s2), "min": z3.If(s1 <= s2, s1, s2)}.get(fn)
        ok = False
        detail = f"self.{attr} = {ast.unparse(rhs)[:80] if rhs is not None else '?'}"
        if S is not None and over_speeds:
            sol = z3.Solver()
            sol.add(s1 > 0, s2 > 0, gc >= 0, z3.Not(z3.And(gc / S <= gc / s1, gc / S <= gc / s2)))
            r = sol.check()
            ok = r == z3.unsat
            if r == z3.sat:
                detail += f": over-estimates, e.g. {sol.model()}"
        obs.append(_ob("O1.heuristic_speed_bounds_all_links", ok, detail, time.time() - t0))
    # ---- O2: argument order of geo_to_h3 for the node cells
    call = None
    for n in ast.walk(init):
        if isinstance(n, ast.Call) and ast.unparse(n.func) == "h3.geo_to_h3":
            call = n
    ok = False
    detail = "no geo_to_h3 call for the node cells"
    if call is not None and len(call.args) >= 2:
        a0, a1 = ast.unparse(call.args[0]), ast.unparse(call.args[1])
        keys0 = set(k for k in ("x", "y", "lat", "lon") if f"'{k}'" in a0 or f'"{k}"' in a0)
        keys1 = set(k for k in ("x", "y", "lat", "lon") if f"'{k}'" in a1 or f'"{k}"' in a1)
        ok = keys0 <= {"y", "lat"} and keys1 <= {"x", "lon"} and keys0 and keys1
        detail = f"geo_to_h3({a0}, {a1}, ...): first argument must be the latitude (y/lat), second the longitude (x/lon)"
    obs.append(_ob("O2.node_cells_latitude_first", bool(ok), detail, backend="ast-rule"))
    # ---- O3: edge weight
    t0 = time.time()
    env = {}
    length, speed = z3.Reals("length speed")
    val = {"length": length, "speed_kmph": speed}

    def ev(e):
        if isinstance(e, ast.Constant):
            return z3.RealVal(e.value)
        if isinstance(e, ast.Name):
            return env[e.id]
        if isinstance(e, ast.Subscript) and isinstance(e.slice, ast.Constant):
            return val[e.slice.value]
        if isinstance(e, ast.BinOp):
            l, r = ev(e.left), ev(e.right)
            return {ast.Div: lambda: l / r, ast.Mult: lambda: l * r, ast.Add: lambda: l + r, ast.Sub: lambda: l - r}[type(e.op)]()
        raise ValueError(ast.dump(e)[:60])
    ok, detail = False, ""
    try:
        stmts = [n for n in ast.walk(init) if isinstance(n, ast.Assign) and isinstance(n.targets[0], ast.Name)
                 and n.targets[0].id in ("distance_km", "speed_kmph", "time_hours", "time_seconds")]
        stmts.sort(key=lambda n: n.lineno)
        for s_ in stmts:
            env[s_.targets[0].id] = ev(s_.value)
        sol = z3.Solver()
        sol.add(speed > 0, length >= 0, z3.Not(env["time_seconds"] == 3600 * (length / 1000) / speed))
        ok = sol.check() == z3.unsat
        detail = "computed edge weight differs from 3600 * length_km / speed"
    except Exception as e:  # noqa
        detail = "edge-weight statements not found / not evaluable: " + repr(e)[:100]
    obs.append(_ob("O3.edge_weight_is_travel_time", ok, detail, time.time() - t0))
    return obs
