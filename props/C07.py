INFO = {
    "level": "proof",
    "level_text": "DispatchPoolingTrip.enter is verified from its body: the planned route leads from the vehicle to the first request of the plan. Postcondition of every enter (from the descriptor table, not from the code): a vehicle that starts charging/queueing is in the station's cell, one that parks or charges at a base is in the base's cell, a trip starts at the request's origin with a route to its destination, and a dispatch route starts at the vehicle and ends at the target (empty route iff already there); stations and bases are proved never to move (modify_*_safe), move() puts the vehicle at the junction of its traversal.",
    "level_note": 'route correspondence is over the symbolic route value; road_network.route is an uninterpreted function (its own correctness is C13); persistence of the location fact while the activity lasts follows from the frames of the update layer (only travelling activities change position).',
}
