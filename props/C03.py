INFO = {
    "level": "proof",
    "level_text": "Contracts on pick_up_trip (committed iff vehicle and request exist; fare credited exactly once to the picking vehicle; request removed; exactly one PICKUP report iff committed), drop_off_trip (every passenger's destination is the vehicle's cell; state unchanged; one DROPOFF report iff committed), ServicingTrip.enter (only from DispatchTrip, at the origin, with the request present) and ServicingTrip.exit (refuses while the route is not exhausted: no instruction can divert a vehicle carrying passengers), remove_request; all for every state.",
    "level_note": 'the history statement (exactly one of picked/cancelled/waiting over a whole run) is the composition of these per-call contracts with the frame `no other kernel function changes the key set of requests`; CancelRequests/UpdateRequestsFromFile loops are covered under C11 where in reach; request ids unique in the input; pooling activities assumed.',
}
