INFO = {
    "level": "proof",
    "level_text": "The two filters of the built-in trip dispatcher are verified as closures captured from the real enclosing functions (two levels of nesting), for all states: a request is offered to the matching iff it has no dispatched vehicle and (when matching per fleet) grants access to that fleet; a vehicle is offered only if its activity's name is in the configured dispatchable states, its driver is on shift, it passes the fleet-membership test and its remaining range exceeds the thresholds. AssignmentSolution.add and the request sort key (-value, id) (C01) are under contract. The matching itself is scipy's linear_sum_assignment on a numpy cost table.",
    "level_note": "distinctness of paired vehicles/requests, size = min of the two counts and minimality of the total grid distance are the assumed contract of scipy.optimize.linear_sum_assignment; find_assignment's table-filling loops (in-place numpy writes, boolean-mask assignment) are outside the executor's functional subset and are not verified: that the table holds cost_fn(assignees[i], targets[j]) and that row/column indices are mapped back to the right ids is therefore not decided.",
    "trusted_base": ["scipy.optimize.linear_sum_assignment returns a minimum-cost assignment of size min(n, m) with distinct rows and columns", "numpy array semantics"],
    "assumptions": [],
    "not_decided": ["find_assignment's cost table and index mapping (numpy in-place code)", "optimality of scipy's assignment"],
}
