INFO = {
    "level": "proof",
    "level_text": "The cost the dispatcher minimises is the grid distance: every find_assignment call in the dispatcher passes assignment_ops.h3_distance_cost (call-site rule on the real AST), whose contract is h3.h3_distance of the two cells. The two filters of the built-in trip dispatcher are verified as closures captured from the real enclosing functions (two levels of nesting), for all states: a request is offered to the matching iff it has no dispatched vehicle and (when matching per fleet) grants access to that fleet; a vehicle is offered only if its activity's name is in the configured dispatchable states, its driver is on shift, it passes the fleet-membership test and its remaining range exceeds the thresholds. AssignmentSolution.add and the request sort key (-value, id) (C01) are under contract. find_assignment itself is under contract (numpy table as a functional 2-D array of the executor, two nested loop invariants, one fold invariant): for all assignee / target tuples and every finite cost function, the table handed to scipy holds exactly cost_fn(assignees[i], targets[j]) in every cell (no cell is left at, or replaced by, the infinity placeholder), the pairs returned are scipy's (row, column) pairs mapped back to the ids of those very entities, their number is min(n, m) and solution_cost is the sum of the table cells of the pairs. Additionally a bounded stand-in (labelled bounded, not counted among the discharged obligations) runs the real function on every cost table of shape up to 3x3 over a small set of cost values and compares with brute force.",
    "technique": "contract-based deductive verification: VCs generated from the real Python AST (pyvc), discharged by z3/cvc5; one call-site rule on the real AST (the dispatcher's cost function is h3_distance_cost; labelled ast-rule); bounded stand-in for scipy's optimality (labelled bounded, not counted)",
    "level_note": "minimality of scipy's assignment is cross-checked only by the bounded stand-in (every table up to 3x3 against brute force; labelled bounded); distinctness of paired vehicles/requests, size = min of the two counts and minimality of the total grid distance are the assumed contract of scipy.optimize.linear_sum_assignment; costs are assumed finite (the dispatcher's cost is the h3 grid distance); float('inf') / float('-inf') are two constants that are only compared; numpy stores into the local table are modelled as functional updates (table[i][j] = v, table[table == x] = v).",
    "trusted_base": ["scipy.optimize.linear_sum_assignment returns a minimum-cost assignment of size min(n, m) with distinct rows and columns (assumed library contract; minimality is not re-proved)", "numpy array semantics of np.full, element store, masked store, element read (modelled as a functional 2-D array)"],
    "assumptions": [],
    "not_decided": ["optimality of scipy's assignment (assumed; cross-checked by brute force only within the bound of the stand-in)", "cost functions returning infinity"],
}


def _cost_function_obligation(repo):
    """every find_assignment call of the built-in dispatcher minimises the grid distance: its cost function argument is
    assignment_ops.h3_distance_cost (whose contract is `h3.h3_distance of the two cells`)"""
    import ast
    path = "nrel/hive/dispatcher/instruction_generator/dispatcher.py"
    bad, unresolved, n = [], [], 0
    ao = repo.modules["nrel/hive/dispatcher/instruction_generator/assignment_ops.py"].tree
    other_costs = {f.name for f in ao.body if isinstance(f, ast.FunctionDef) and f.name != "h3_distance_cost"}
    for node in ast.walk(repo.modules[path].tree):
        if isinstance(node, ast.Call) and ast.unparse(node.func).endswith("find_assignment"):
            n += 1
            arg = node.args[2] if len(node.args) > 2 else next((k.value for k in node.keywords if k.arg == "cost_fn"), None)
            txt = ast.unparse(arg) if arg is not None else "<missing>"
            if txt not in ("assignment_ops.h3_distance_cost", "h3_distance_cost"):
                # another cost function of assignment_ops (its contract is not the grid distance) refutes the clause;
                # an expression this rule cannot resolve (a local, a lambda) leaves it undecided
                name = txt.split(".")[-1]
                known_other = name in other_costs
                (bad if known_other else unresolved).append(f"line {node.lineno}: cost function {txt}")
    if n == 0:
        unresolved.append("no find_assignment call found in the dispatcher")
    status = "refuted" if bad else ("unknown" if unresolved else "proved")
    return {"id": "C12.cost_function_is_grid_distance.Dispatcher.generate_instructions", "kind": "call-site-rule",
            "status": status, "backend": "ast-rule", "secs": 0.0, "props": ["C12"], "no_regress": True,
            "detail": "; ".join(bad + unresolved)}


def extra_obligations(repo, world, ex, R, tier, timeout_ms):
    """bounded stand-in (never counted as proved): the real find_assignment on every cost table of a small shape"""
    import os, subprocess, time
    root = os.path.dirname(os.path.dirname(os.path.abspath(__file__)))
    script = os.path.join(root, "findings", "bounded_C12.py")
    vals = ["0", "1", "2", "3"] if tier == "quick" else ["0", "1", "2", "3", "7"]
    hive = os.environ.get("HIVE_REPO", "/repo")
    cmd = ["/venv/bin/python", script, "3"] + vals
    t0 = time.time()
    p = subprocess.run(cmd, capture_output=True, text=True, cwd=hive, env=dict(os.environ, PYTHONPATH=hive), timeout=3000)
    out = p.stdout.strip().splitlines()
    cost_ob = _cost_function_obligation(repo)
    hit = any(l.startswith("REPRODUCED") for l in out)
    ok = (not hit) and p.returncode == 0 and any(l.startswith("not reproduced") for l in out)
    return [cost_ob, {"id": "C12.bounded.find_assignment.all_tables_up_to_3x3", "kind": "bounded",
             "status": "held" if ok else ("refuted" if hit else "error"), "backend": "native-exhaustive-enumeration",
             "secs": round(time.time() - t0, 2), "props": ["C12"],
             "bound": f"every n x m cost table, n, m <= 3, cost values in {{{', '.join(vals)}}}: one-to-one, size = min(n, m), ids mapped back, "
                      "cost = sum of pair costs, no cheaper pairing of that size (brute force)",
             "command": f"cd {hive} && PYTHONPATH={hive} " + " ".join(cmd),
             "detail": "\n".join(out[-3:])[:800] if not ok else out[-1][:300]}]
