from pyvc import frames

INFO = {
    "level": "proof",
    "level_text": "ServicingPoolingTrip.enter credits the fare of the first pooled request exactly once (verified from its body). Every station is built with a dispensed-energy ledger entry (at zero) for every energy type (Station.build, proved from its body: reduce invariant + dict comprehension) and Station.append_chargers (later rows of the stations file) leaves ledger and balance untouched -- tick_energy_dispensed books only on keys the ledger already has, so this is what makes `energy gained = energy dispensed` hold for plugs added by later rows. The energy a vehicle books as gained equals the change of its energy level for both mechatronics (BEV.add_energy / ICE.add_energy: `energy_accounted`, including the step in which the battery or tank tops out), which is the amount charge() books as dispensed and bills. Pooling: servicing_ops.complete_trip_phase is proved to credit the fare of the boarded request to the vehicle on a committed pickup (defect F17 found by this obligation and repaired). Contract of charge(): for all states, a committed charging step changes the vehicle by exactly what add_energy returns minus a payment of (energy added) x (this station's tariff for this plug), and the station by exactly that payment and that energy on the charger's energy type; nothing else changes in either (postcondition over the whole values). pick_up_trip credits exactly request.value to the vehicle that picks up. Frame: a syntactic rule, re-derived from the source each run, shows that no other function of the package writes balance / energy_gained / energy_dispensed or calls one of their writers. The fleet-wide sums then move by equal amounts on both sides (lemma L1).",
    "level_note": "floats as reals (both sides are computed from the same operands, so per step they are bit-equal; sums over the fleet are order dependent in floating point); add_energy is any MechatronicsInterface implementation (its frame is the interface contract proved for BEV and ICE); the sums over the fleet are not materialised: the per-step equality of the two deltas is what is proved.",
    "trusted_base": ["lemma L1 (sum point-update) for the step from per-entity deltas to fleet sums"],
    "assumptions": ["initial balances / energy ledgers are zero at load time (initialisation code is outside the kernel)"],
    "not_decided": ["the summary statistics handler's own aggregation (reporting/handler/summary_stats.py) is not under contract"],
}


def extra_obligations(repo, world, ex, R, tier, timeout_ms):
    return frames.ledger_obligations(repo)
