from pyvc import lean

INFO = {
    "level": "proof",
    "level_text": "The time by which the queue is ordered is the time of joining: the update of every activity is proved to record the current simulation time as enqueue_time when it moves a vehicle into ChargeQueueing (only DispatchStation's arrival at a full station does), and ChargeQueueing._perform_update keeps it while the vehicle waits. (1) The ordering closure of perform_vehicle_state_updates is proved, from its real body (partition + two sorts), to return the same vehicles with every ChargeQueueing vehicle after all others, queueing vehicles in strictly increasing (enqueue_time, vehicle id), others in increasing id. (2) For ChargeQueueing.update (default update: terminal test, transition to ChargingStation, charge) it is proved for all states, through Inv02 and lemma L1, that (A) the update never frees a plug of any type at any station, (B) a vehicle still queueing after a successful update found no free plug of its type at its turn, (C) it starts charging only at its own station and plug type and only if a plug was free at its turn, and it leaves the queue only to charge. (1)+(A)+(B)+(C) give the property: when a later-queued vehicle gets a plug, every earlier one of that queue was processed before it and, if still waiting, saw zero free plugs, which (A) keeps at zero.",
    "level_note": "the last composition step (induction over the queue phase of the loop from (1),(A),(B),(C)) is an argument over the contracts, not a mechanised obligation; (B) is stated for successful updates: a queued vehicle whose transition errors every step (full battery, plug type invalid for its powertrain — only an external controller can queue such a vehicle) is skipped, as recorded in DESIGN 4 C18; partition length lemma L6 and sorted-uniqueness L3 are Lean lemmas.",
    "trusted_base": ["sorted() returns a permutation of its input ordered by the key (python semantics)", "lemma L6 (partition lengths), L3 (strictly sorted lists with equal elements are equal), L1"],
    "assumptions": ["queued vehicles are eligible to charge (not full, plug type valid)"],
    "not_decided": ["mechanised induction over the queue phase"],
}


def extra_obligations(repo, world, ex, R, tier, timeout_ms):
    return lean.lean_obligations("C18", ["L6_partition_length", "L3_sorted_unique", "L1_sum_update"])
