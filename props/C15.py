from pyvc import lean

INFO = {
    "level": "proof",
    "level_text": "The premise `state step length = configured step length` is established where states are built: every SimulationState(...) construction outside mocks passes the configured step length and start time (call-site rule; the class default of 60 s would silently override the configuration). tick adds exactly the step length and nothing else; every function between a vehicle update and Update.apply_update carries the frame `clock untouched` (part of their contracts), so one apply_update advances sim_time by exactly dt (proved for all states); crank(n) and LocalSimulationRunner.run are folds of that step, proved with inductive invariants `time = t0 + i*dt` (nonlinear integer arithmetic), so crank(n) ends at t0 + n*dt, run ends at the configured end time when dt divides the interval, and step() refuses at or beyond the end time. Stepping composes: with the ghost function step_of(u, rp) naming the payload Update.apply_update returns and iter_steps(rp, n) its n-fold iterate `rp -> step_of(rp.u, rp)` (each step uses the update functions carried by the payload it steps), crank(rp, n).runner_payload == iter_steps(rp, n) and LocalSimulationRunner.run(rp) == iter_steps(rp, number of steps in [start, end)) are proved with the inductive invariant `acc == iter_steps(rp, i)`, and LocalSimulationRunner.step(rp) == step_of(rp.u, rp) unless it refuses; crank(a);crank(b) = crank(a+b) = the batch runner over the same interval is then lemma L4 (iterating a then b times is iterating a+b times; Lean), whose premise — the step function ignores its index — is an AST obligation on the two step closures.",
    "technique": "contract-based deductive verification: VCs generated from the real Python AST (pyvc), discharged by z3/cvc5; call-site rule on every SimulationState(...) construction (step length and start time taken from the configuration; labelled ast-rule); Lean for lemma L4",
    "level_note": "Update.apply_update is used through its contract; `same states and events` is equality of the values of one pure step function (C16) iterated; events are equal only up to the order within a step (C01). When dt does not divide end-start the runner overshoots the end time by less than one step (stated in the contract, not a violation of the clauses proved).",
    "trusted_base": ["lemma L4 (fold over range(a+b) splits), checked by lean on every run", "tqdm(range(..)) iterates range(..)"],
    "assumptions": ["determinism of Update.apply_update: its result is a function of (self, runner_payload) — hidden state in file readers carried inside the update functions (DictReaderIterator cursors) is outside the model",
                    "pre-step update functions satisfy the interface contract `clock untouched, state stays well-formed` (proved for the shipped ones under C11/C03 where in reach)",
                    "instruction generators are arbitrary (open interface)"],
    "not_decided": ["exact coverage of [start, end] when dt does not divide end - start", "crank has no end-time check (co-simulation may step beyond the configured end: by design of that API)"],
}


def _initial_step_length_obligations(repo):
    """the premise of the runner contract `state step length = configured step length` is established where states are built:
    every SimulationState(...) construction outside tests / mocks passes sim_timestep_duration_seconds =
    <config>.sim.timestep_duration_seconds and sim_time = <config>.sim.start_time (the class default of 60 s would silently
    override the configuration)"""
    import ast
    out = []
    for path, m in sorted(repo.modules.items()):
        if "/resources/" in path:
            continue
        # enclosing function of every construction (ids must not depend on line numbers)
        sites = []
        for fn in ast.walk(m.tree):
            if isinstance(fn, (ast.FunctionDef, ast.AsyncFunctionDef)):
                for node in ast.walk(fn):
                    if isinstance(node, ast.Call) and ast.unparse(node.func) == "SimulationState":
                        sites.append((fn.name, node))
        inside = {id(n) for _, n in sites}
        sites += [("<module>", n) for n in ast.walk(m.tree)
                  if isinstance(n, ast.Call) and ast.unparse(n.func) == "SimulationState" and id(n) not in inside]
        seen, ordinal = set(), {}
        for fname, node in sites:
            if id(node) in seen:
                continue
            seen.add(id(node))
            k = ordinal[fname] = ordinal.get(fname, -1) + 1
            kws = {k_.arg: ast.unparse(k_.value) for k_ in node.keywords if k_.arg}
            # a missing keyword means the class default (60 s / time 0) overrides the configuration: refuted;
            # a keyword bound to an expression this rule does not recognise is undecided, never a violation
            missing, unrecognised = [], []
            for kw, suffix in (("sim_timestep_duration_seconds", "sim.timestep_duration_seconds"), ("sim_time", "sim.start_time")):
                if kw not in kws and not any(k_.arg is None for k_ in node.keywords):
                    missing.append(f"{kw} = <class default>")
                elif not kws.get(kw, "").endswith(suffix):
                    unrecognised.append(f"{kw} = {kws.get(kw, '**kwargs')}")
            status = "refuted" if missing else ("unknown" if unrecognised else "proved")
            out.append({"id": f"C15.initial_state_takes_step_length_from_config.{path}::{fname}#{k}", "kind": "call-site-rule",
                        "status": status, "backend": "ast-rule", "secs": 0.0, "props": ["C15"], "no_regress": True,
                        "detail": f"line {node.lineno}: " + "; ".join(missing + unrecognised) if status != "proved" else ""})
    return out


def extra_obligations(repo, world, ex, R, tier, timeout_ms):
    obs = lean.lean_obligations("C15", ["L4_fold_split"])
    obs += _initial_step_length_obligations(repo)
    obs.append(lean.unused_param_obligation(repo, "C15", "nrel/hive/app/hive_cosim.py::crank.run_step", "i"))
    obs.append(lean.unused_param_obligation(repo, "C15", "nrel/hive/runner/local_simulation_runner.py::_run_step_in_context._run_step", "t"))
    return obs
