from pyvc import lean

INFO = {
    "level": "proof",
    "level_text": "tick adds exactly the step length and nothing else; every function between a vehicle update and Update.apply_update carries the frame `clock untouched` (part of their contracts), so one apply_update advances sim_time by exactly dt (proved for all states); crank(n) and LocalSimulationRunner.run are folds of that step, proved with inductive invariants `time = t0 + i*dt` (nonlinear integer arithmetic), so crank(n) ends at t0 + n*dt, run ends at the configured end time when dt divides the interval, and step() refuses at or beyond the end time. Composition crank(a);crank(b) = crank(a+b) is lemma L4 (fold split, Lean) whose premise — the step function ignores its index — is an AST obligation on the two step closures.",
    "level_note": "Update.apply_update is used through its contract; `same states and events` is equality of the values of one pure step function (C16) iterated; events are equal only up to the order within a step (C01). When dt does not divide end-start the runner overshoots the end time by less than one step (stated in the contract, not a violation of the clauses proved).",
    "trusted_base": ["lemma L4 (fold over range(a+b) splits), checked by lean on every run", "tqdm(range(..)) iterates range(..)"],
    "assumptions": ["pre-step update functions satisfy the interface contract `clock untouched, state stays well-formed` (proved for the shipped ones under C11/C03 where in reach)",
                    "instruction generators are arbitrary (open interface)"],
    "not_decided": ["exact coverage of [start, end] when dt does not divide end - start", "crank has no end-time check (co-simulation may step beyond the configured end: by design of that API)"],
}


def extra_obligations(repo, world, ex, R, tier, timeout_ms):
    obs = lean.lean_obligations("C15", ["L4_fold_split"])
    obs.append(lean.unused_param_obligation(repo, "C15", "nrel/hive/app/hive_cosim.py::crank.run_step", "i"))
    obs.append(lean.unused_param_obligation(repo, "C15", "nrel/hive/runner/local_simulation_runner.py::_run_step_in_context._run_step", "t"))
    return obs
