INFO = {
    "level": "proof",
    "level_text": "placeholder",
    "level_note": "placeholder",
}
