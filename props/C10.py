INFO = {
    "level": "proof",
    "level_text": "Membership.grant_access_to_membership is proved equal to the specification `public or a fleet in common`; every enter of the eight interacting activities has the postcondition `success implies the target's membership grants access to the vehicle's` (including the DispatchStation->ChargingStation shortcut), for all states and memberships.",
    "level_note": "the built-in dispatchers' pairing filters (Dispatcher._is_valid_for_dispatch/_valid_request) are nested closures over numpy/scipy code and are not under contract yet; known issue F13 (fleet-less vehicle treated as public by grant_access_to_membership_id) is recorded in DESIGN 7.",
}
