INFO = {
    "level": "proof",
    "level_text": "The in-memory loading path hands the csv rows to the stepper in file order (data-flow rule on UpdateRequestsFromFile.build, labelled ast-rule: only order-preserving wrappers between DictReader and DictReaderStepper.from_iterator) -- the premise of the reader contract. The windowed file reader: DictReaderIterator.__next__ (a stateful object; its fields are threaded through the symbolic execution of the real body) is proved, for every reader state, row sequence, parser and stop condition, against the abstract view pending = ([history] if history else []) ++ rows[pos:]: a returned row is the head of pending, its step value parses and satisfies the stop condition and pending loses exactly its head; StopIteration leaves pending unchanged (the row read past the window is kept in history) and is raised only when pending is empty or its head does not satisfy the stop condition; any other exception is the parse error of the head. ObjectIterator.__next__ (the in-memory variant used by the sampling update) is proved against the same abstract view (its step value is getattr(item, name), an uninterpreted function of item and name). Lemma L7 (Lean) turns this per-call contract into the window statement: draining the iterator delivers exactly the longest prefix of pending whose rows satisfy the condition, in file order, each once, and leaves the rest pending. Station.update_prices (fold of station_state_updates over the items of the price map, in any iteration order) is proved to change exactly the price field of exactly the plug types the map names and the station has (inductive invariant over the item sequence with a key-position function). _add_row_to_this_update (latest-row-wins accumulation of one price row): proved for every accumulator and row that exactly the (station|region, plug) entry named by the row is set to the parsed price, every other entry is kept, and an unusable row (missing price / plug / key, unparsable price) leaves the accumulator unchanged without raising. CancelRequests.update — a fold over the sorted request ids — is proved with an inductive invariant, for all states, to remove exactly the waiting requests with sim_time >= departure + timeout and to leave every other request, and everything but the request maps, exactly as it was (keeping the state well-formed and the C02 counts matched); the row-admission closure of update_requests_from_iterator (captured from the real enclosing function) is proved to change the state only by adding a request whose departure + timeout > sim_time and to file exactly one ADD report iff it did; _update_station_prices is proved to change exactly the named station, exactly the plug types the update names, exactly the price field (or nothing if the station cannot be written back); ChargingPriceUpdate.update (per-station tables) is proved never to raise — a table may mention only some stations — and to touch nothing but stations.",
    "technique": "contract-based deductive verification: VCs generated from the real Python AST (pyvc), discharged by z3/cvc5; one data-flow rule on the real AST (rows reach the stepper in file order; labelled ast-rule, three-valued: proved / refuted / undecided); Lean for lemma L7",
    "level_note": "relative to assumed contracts: the file reader as seen by its callers (`yields the pending rows whose time is below the current sim_time, in file order, each once`: now the consequence of the proved __next__ contract and L7, but the callers still use it as an assumed interface contract; that `for` / `tuple()` call __next__ until StopIteration is Python's iteration protocol), rows sorted by time, DictReaderStepper.read_until_stop_condition only replaces the stop condition (two-line body, not under contract), Request.from_row (parsing), _map_to_station_ids (in-place dict building; its defects F7b/F9 were found by the C01 site scanner and natively, and fixed). `exactly once, in the first step after its time` composes the admission rule with the reader assumption; a request whose origin is outside the geofence makes unwrap() raise (latent: isinstance(sim, Failure) tests the wrong variable; both shipped networks accept every cell).",
    "trusted_base": ["DictReaderStepper/DictReaderIterator reader contract (assumed)", "Request.from_row / SimTime.build parsing (datetime, h3)"],
    "assumptions": ["input rows sorted by time", "request ids unique in the input"],
    "not_decided": ["DictReaderStepper.read_until_stop_condition (replaces the stop condition; two-line body)", "_map_to_station_ids region mapping", "use_defaults price tables (charger_update['default'])"],
}


def _file_order_obligation(repo):
    """the reader contract (`__next__` against the pending view) speaks about the rows *in file order*; this rule ties the
    in-memory (default) loading path of UpdateRequestsFromFile.build to that premise: the iterator handed to
    DictReaderStepper.from_iterator is the csv reader wrapped only in order-preserving constructors. A reordering
    constructor (sorted by anything but the parsed time, reversed, set, shuffle) refutes it; anything else the rule does not
    recognise leaves it undecided."""
    import ast
    key = "nrel/hive/state/simulation_state/update/update_requests_from_file.py::UpdateRequestsFromFile.build"
    oid = "C11.rows_reach_the_stepper_in_file_order.UpdateRequestsFromFile.build"
    try:
        fn, _, _ = repo.func(key)
    except KeyError:
        return {"id": oid, "kind": "data-flow-rule", "status": "unknown", "backend": "ast-rule", "secs": 0.0, "props": ["C11"],
                "no_regress": True, "detail": "UpdateRequestsFromFile.build not found"}
    assigns = {}
    for node in ast.walk(fn):
        if isinstance(node, ast.Assign) and len(node.targets) == 1 and isinstance(node.targets[0], ast.Name):
            assigns.setdefault(node.targets[0].id, []).append(node.value)
    keep = {"iter", "tuple", "list", "DictReader", "csv.DictReader"}
    reorder = {"sorted", "reversed", "set", "frozenset", "random.sample", "sample", "dict"}
    bad, unresolved, n = [], [], 0

    def walk(e, depth=0):
        if depth > 8:
            unresolved.append("expression too deep")
        elif isinstance(e, ast.Name):
            vals = assigns.get(e.id)
            if vals is None:
                return                                  # the file handle / a parameter: the source of the rows
            if len(vals) != 1:
                unresolved.append(f"{e.id} assigned {len(vals)} times")
            else:
                walk(vals[0], depth + 1)
        elif isinstance(e, ast.Call):
            f = ast.unparse(e.func)
            if f in keep and len(e.args) == 1 and not e.keywords:
                walk(e.args[0], depth + 1)
            elif f in reorder:
                k = next((ast.unparse(kw.value) for kw in e.keywords if kw.arg == "key"), "")
                if f == "sorted" and "SimTime.build" in k:
                    unresolved.append(f"line {e.lineno}: sorted by a key that parses the time: {k}")
                else:
                    bad.append(f"line {e.lineno}: {f}({'key=' + k if k else ''}) reorders the rows before they reach the stepper")
            else:
                unresolved.append(f"line {e.lineno}: {f}(...) not recognised")
        else:
            unresolved.append(f"line {getattr(e, 'lineno', '?')}: {type(e).__name__} not recognised")
    for node in ast.walk(fn):
        if isinstance(node, ast.Call) and ast.unparse(node.func).endswith("DictReaderStepper.from_iterator") and node.args:
            n += 1
            walk(node.args[0])
    if n == 0:
        unresolved.append("no DictReaderStepper.from_iterator call found")
    status = "refuted" if bad else ("unknown" if unresolved else "proved")
    return {"id": oid, "kind": "data-flow-rule", "status": status, "backend": "ast-rule", "secs": 0.0, "props": ["C11"],
            "no_regress": True, "detail": "; ".join(bad + unresolved)}


def extra_obligations(repo, world, ex, R, tier, timeout_ms):
    from pyvc import lean
    return lean.lean_obligations("C11", ["L7_window"]) + [_file_order_obligation(repo)]
