INFO = {
    "level": "proof",
    "level_text": "move() never answers `no change` for an exhausted route, so a default transition that has filed its pickup event is never discarded by step_vehicle afterwards (the event would otherwise be reported for a state change that did not happen, once per step). Contracts on the report builders and on the functions that file them, proved from the real bodies for all states: report_pickup_request (vehicle, request, price = request.value, request time; waiting time between zero and timeout + one step and pickup never before departure, for every admitted, not yet cancelled request), report_dropoff_request (vehicle, request, drop-off time), vehicle_charge_event (vehicle, station, plug, energy = level after - level before), driver_schedule_event; pick_up_trip, drop_off_trip, charge and the human driver updates file exactly one report iff the state change is committed and none otherwise (ghost report log threaded through the symbolic execution), with the reported vehicle/request/amount equal to the deltas in the returned state. Station load: construct_station_load_events is proved, for every tuple of reports and every state, to return for each station of the simulation a report whose energy is (the text of) the sum of the energies of exactly that step's charge events at that station (ghost sum `station_load` defined by recursion over the report tuple; fold step contract `_add` adds the event to its own station's entry and touches no other; two inductive fold invariants), and nothing for unknown stations unless a charge event names them.",
    "level_note": "the sums over a run (move distances = odometer, charge energies = energy gained, summary counts = number of add/cancel events) compose these per-call contracts with lemma L1; vehicle_move_event's field values are assumed (its fold over energy.keys() is out of reach); the stats handlers and the json round trip of the written log are not under contract (mutable objects writing files): a bounded stand-in, labelled bounded and not counted among the discharged obligations, runs the real StatsHandler and EventfulHandler on seeded random report batches and compares counts, distances, parsed-back records and station loads; datetime arithmetic is modelled on seconds of day.",
    "trusted_base": ["Report values are an abstract sort with typed fields per literal key (station_id, energy, energy_units); a charge event carries these keys (vehicle_charge_event's report contract)", "_to_reports: tuple(map(_cast_as_report, acc.keys())) yields one report per accumulator key (assumed: Report construction is not a solver sort)", "str(float) is an uninterpreted injective-free function of the number",
                     "datetime model: a time of day is its seconds since midnight, datetime.combine(date.min, t) differences and timedeltas are whole seconds, timedelta.days = floor(seconds / 86400); time_diff itself is verified from its body over this model (cyclic difference)", "h3.h3_to_geo uninterpreted"],
    "assumptions": ["a request can be picked up only while admitted and not yet cancelled: departure < sim_time < departure + timeout"],
    "not_decided": ["records can be parsed back from the written log and StatsHandler / summary_stats aggregation: bounded stand-in only (handlers are mutable objects writing files)", "vehicle_move_event field values"],
}


def extra_obligations(repo, world, ex, R, tier, timeout_ms):
    """bounded stand-in (never counted as proved): the real StatsHandler / EventfulHandler on seeded random report batches"""
    import os, subprocess, time
    root = os.path.dirname(os.path.dirname(os.path.abspath(__file__)))
    script = os.path.join(root, "findings", "bounded_C19.py")
    hive = os.environ.get("HIVE_REPO", "/repo")
    seed = os.environ.get("VERIF_SEED", "0") or "0"
    runs = "150" if tier == "quick" else "1500"
    cmd = ["/venv/bin/python", script, seed, runs]
    t0 = time.time()
    p = subprocess.run(cmd, capture_output=True, text=True, cwd=hive, env=dict(os.environ, PYTHONPATH=hive), timeout=3000)
    out = p.stdout.strip().splitlines()
    hit = any(l.startswith("REPRODUCED") for l in out)
    ok = (not hit) and p.returncode == 0 and any(l.startswith("not reproduced") for l in out)
    return [{"id": "C19.bounded.handlers.random_report_batches", "kind": "bounded",
             "status": "held" if ok else ("refuted" if hit else "error"), "backend": "native-randomised-run",
             "secs": round(time.time() - t0, 2), "props": ["C19"],
             "bound": f"{runs} seeded runs (seed {seed}) of 1-4 flushes of 0-8 random reports through the real StatsHandler and EventfulHandler: "
                      "summary counts = add / cancel events, distance per activity = move events, event.log records parse back to exactly the "
                      "filed reports (each once), station-load records = sums of the flush's charge events",
             "command": f"cd {hive} && PYTHONPATH={hive} " + " ".join(cmd),
             "detail": ("\n".join(out[-3:])[:800] if not ok else out[-1][:300]) + (p.stderr[-300:] if not ok and not hit else "")}]
