INFO = {
    "level": "proof",
    "level_text": "StepSimulation.update is a pipeline (data-flow rule on the real AST): the instruction generators, the built-in dispatcher included, consume the state produced by this step's driver update, so they see this step's availability. time_in_range is proved equal to the cyclic-interval specification ((x - start) mod 86400 < (end - start) mod 86400: start inclusive, end exclusive, wrapping past midnight, empty when equal) for all seconds of day; the schedule closure built per row of the schedules file is proved (closure captured from the real enclosing function) to return exactly `time-of-day(sim_time) in shift`; HumanAvailable.update / HumanUnavailable.update are proved for all states to leave the driver available iff the schedule says so, to change nothing but that vehicle's driver_state, and to file exactly one schedule report iff availability flipped; perform_driver_state_updates (a fold, inductive invariant) keeps the state well-formed and touches nothing else; it runs on the pre-tick time, before instructions are generated (StepSimulation.update).",
    "technique": "contract-based deductive verification: VCs generated from the real Python AST (pyvc), discharged by z3/cvc5; one data-flow rule on StepSimulation.update (each stage consumes the state produced by the stage before; labelled ast-rule)",
    "level_note": "datetime.utcfromtimestamp(t).time() is modelled as t mod 86400 and datetime.time values as seconds of day (assumed); parsing of HH:MM:SS trusted; a driver whose schedule id is missing from the environment stays as it is (as the code does); the dispatcher's eligibility filter (closure _is_valid_for_dispatch) is under contract: an eligible vehicle's driver is on shift; on an error inside one driver's update the fold returns the initial state (latent defect noted in DESIGN 7; it keeps the invariants).",
    "trusted_base": ["datetime time-of-day = epoch seconds mod 86400"],
    "assumptions": ["every human driver's schedule id is present in env.schedules"],
    "not_decided": [],
}

def _pipeline_obligation(repo):
    """StepSimulation.update is a pipeline: drivers are updated first, and the instruction generators (built-in dispatcher
    included), apply_instructions, the vehicle updates and tick each consume the state produced by the stage before — in
    particular the dispatcher sees this step's availability (after the shift check), not the previous step's"""
    import ast
    fn, _, _ = repo.func("nrel/hive/state/simulation_state/update/step_simulation.py::StepSimulation.update")
    produced = {}          # callee name -> variable its result is bound to
    consumed = {}          # callee name -> [argument texts]
    for node in ast.walk(fn):
        if isinstance(node, ast.Assign) and isinstance(node.value, ast.Call):
            callee = ast.unparse(node.value.func).split(".")[-1]
            tgt = node.targets[0]
            name = tgt.id if isinstance(tgt, ast.Name) else (tgt.elts[0].id if isinstance(tgt, ast.Tuple) and isinstance(tgt.elts[0], ast.Name) else None)
            produced[callee] = name
            consumed[callee] = [ast.unparse(a) for a in node.value.args] + [ast.unparse(k.value) for k in node.value.keywords]
    stages = [("perform_driver_state_updates", "generate_instructions"), ("perform_driver_state_updates", "apply_instructions"),
              ("apply_instructions", "perform_vehicle_state_updates"), ("perform_vehicle_state_updates", "tick")]
    bad, unresolved = [], []
    for src, dst in stages:
        if produced.get(src) is None or dst not in consumed:
            unresolved.append(f"stage {src} -> {dst} not found")          # refactored beyond this rule: undecided
        elif produced[src] not in consumed[dst]:
            bad.append(f"{dst}({', '.join(consumed[dst])}) does not consume {produced[src]}, the state produced by {src}")
    return {"id": "C20.step_is_a_pipeline.StepSimulation.update", "kind": "data-flow-rule", "status": "refuted" if bad else ("unknown" if unresolved else "proved"),
            "backend": "ast-rule", "secs": 0.0, "props": ["C20"], "no_regress": True, "detail": "; ".join(bad + unresolved)}


def extra_obligations(repo, world, ex, R, tier, timeout_ms):
    return [_pipeline_obligation(repo)]
