INFO = {
    "level": "proof",
    "level_text": "For the straight-line network, proved from the real bodies for all positions: route() is empty iff origin and destination positions are equal, otherwise one link from the origin cell to the destination cell whose id is the pair's link id and whose speed is positive; link_from_link_id finds exactly that link for every id route() can produce (so every link of a route exists in the network); link_from_geoid returns the self link of a cell. RoadNetwork.position_from_geoid (both branches, including the sort by (h3_distance, cell)) is proved to return a position whose cell is an element of h3_line(link.start, link.end) of the link it names.",
    "level_note": "relative to: the link-id string round trip of the straight-line network (a-b split on the dash; cell ids contain no dash) stated as an axiom; h3.h3_line(a, b) is non-empty and starts at a (assumed). The street-graph router (OSMRoadNetwork: networkx A*, link table built from a graph file) is not under contract: networkx 3.6 cannot even load the shipped graph in this sandbox; its obligations are listed as not decided.",
    "trusted_base": ["h3.h3_line non-empty, first element = start", "string link-id round trip (axiom)"],
    "assumptions": [],
    "not_decided": ["OSMRoadNetwork.route / route_from_nx_path / resolve_route_src_dst_positions (relative to networkx.astar_path)"],
}
