INFO = {
    "level_text": "Representation invariant Inv08 (each of the eight index maps holds exactly the entities at that cell / enclosing search cell, no empty cells, map key = entity id) proved preserved by every add/modify/remove operation of simulation_state_ops and DictOps for all states, by executing the real function bodies symbolically; stations and bases proved never to move.",
    "level_note": "h3.h3_to_parent uninterpreted; ids unique on add (precondition); floats as reals; callers outside simulation_state_ops reach the indexes only through these functions (frame clauses of the state-machine layer).",
    "level": "proof",
    "trusted_base": ["h3.h3_to_parent is a function of (cell, resolution) (uninterpreted)"],
    "assumptions": ["entity ids are unique on add (precondition `fresh_id` of add_*_safe; duplicate input ids are an input assumption, DESIGN §4 C08)"],
    "not_decided": [],
}
