/-
Lemma library for the pyvc contracts (DESIGN §2.7).  Independent of /repo: facts about finite sums, permutations
and folds that SMT solvers do not derive by themselves; pyvc uses them as instantiation schemas.
Checked by `lean` on every run (narrow Mathlib imports).
-/
import Mathlib.Algebra.BigOperators.Group.Finset.Basic
import Mathlib.Algebra.BigOperators.Group.Finset.Piecewise
import Mathlib.Algebra.Order.BigOperators.Group.Finset
import Mathlib.Data.List.Sort
import Mathlib.Data.List.Perm.Basic

open Finset

/-- L1 (sum point-update): changing one term of a finite sum changes the sum by the difference. Used for the C02
counts `number of vehicles whose activity holds plug (s,c)` under `vehicles.set(k, v')`. -/
theorem L1_sum_update {ι : Type} [DecidableEq ι] (s : Finset ι) (g : ι → ℤ) (k : ι) (v : ℤ) (hk : k ∈ s) :
    ∑ i ∈ s, (Function.update g k v) i = ∑ i ∈ s, g i - g k + v := by
  rw [Finset.sum_update_of_mem hk]
  have h := Finset.sum_erase_add s g hk
  rw [Finset.sdiff_singleton_eq_erase]
  omega

/-- L1' : a sum of non-negative terms bounds each of its terms. -/
theorem L1'_term_le_sum {ι : Type} (s : Finset ι) (g : ι → ℤ) (k : ι) (hk : k ∈ s) (h : ∀ i ∈ s, 0 ≤ g i) :
    g k ≤ ∑ i ∈ s, g i :=
  Finset.single_le_sum h hk

/-- L2 (fold over a permutation): a right-commutative step gives the same fold over any ordering of the elements.
Order-independence of commutative folds over unordered collections (C01). -/
theorem L2_foldl_perm {α β : Type} (f : β → α → β) (hf : RightCommutative f) (b : β) {l₁ l₂ : List α}
    (h : l₁.Perm l₂) : l₁.foldl f b = l₂.foldl f b :=
  h.foldl_eq b

/-- L3 : two strictly sorted lists with the same elements are equal — `sorted` with an injective key is a function of
the *set* of elements (C01, C18). -/
theorem L3_sorted_unique {α : Type} [LinearOrder α] (l₁ l₂ : List α) (h : l₁.Perm l₂)
    (s₁ : l₁.Pairwise (· < ·)) (s₂ : l₂.Pairwise (· < ·)) : l₁ = l₂ :=
  h.eq_of_pairwise (fun _ _ _ _ hab hba => absurd hba (not_lt_of_gt hab)) s₁ s₂

/-- L4 (fold split): folding a step that ignores its index over `range (a+b)` is folding over `range a` and then over
`range b` — advancing by a steps and then b steps is advancing by a+b steps (C15). -/
theorem L4_fold_split {β : Type} (step : β → β) (x : β) (a b : ℕ) :
    (List.range (a + b)).foldl (fun acc _ => step acc) x
      = (List.range b).foldl (fun acc _ => step acc) ((List.range a).foldl (fun acc _ => step acc) x) := by
  induction b with
  | zero => simp
  | succ n ih =>
    rw [← Nat.add_assoc, List.range_succ, List.foldl_append, ih, List.range_succ, List.foldl_append]
    simp

/-- L6 (partition): the two halves of a partition by a predicate have lengths adding up to the whole (C18 sort). -/
theorem L6_partition_length {α : Type} (p : α → Bool) (l : List α) :
    (l.filter p).length + (l.filter (fun x => !p x)).length = l.length := by
  induction l with
  | nil => simp
  | cons x xs ih =>
    by_cases h : p x <;> simp [List.filter, h] <;> omega

/-- L7 (windowed reader): a stateful reader whose every call either delivers the head of its pending rows (which then
satisfies `p`) or stops leaving pending unchanged — and stops only when pending is empty or its head fails `p` — delivers,
when drained, exactly the longest prefix of pending whose rows satisfy `p`, in order, each once; what remains pending is the
rest (C11). `view s` is the abstract pending list, `step s` one call of `__next__`. -/
theorem L7_window {σ α : Type} (view : σ → List α) (p : α → Prop) [DecidablePred p] (step : σ → Option (α × σ))
    (hdeliver : ∀ s x s', step s = some (x, s') → view s = x :: view s' ∧ p x)
    (hstop : ∀ s, step s = none → view s = [] ∨ ∃ y ys, view s = y :: ys ∧ ¬ p y) :
    ∀ (n : ℕ) (s : σ), (view s).length ≤ n →
      ∃ (out : List α) (s' : σ), view s = out ++ view s' ∧ (∀ x ∈ out, p x) ∧
        (view s' = [] ∨ ∃ y ys, view s' = y :: ys ∧ ¬ p y) := by
  intro n
  induction n with
  | zero =>
    intro s hlen
    have hnil : view s = [] := List.eq_nil_of_length_eq_zero (Nat.le_zero.mp hlen)
    refine ⟨[], s, by simp, by simp, ?_⟩
    cases hs : step s with
    | none => exact hstop s hs
    | some xs =>
      obtain ⟨x, s'⟩ := xs
      have := (hdeliver s x s' hs).1
      rw [hnil] at this
      exact absurd this (by simp)
  | succ n ih =>
    intro s hlen
    cases hs : step s with
    | none => exact ⟨[], s, by simp, by simp, hstop s hs⟩
    | some xs =>
      obtain ⟨x, s'⟩ := xs
      obtain ⟨hv, hpx⟩ := hdeliver s x s' hs
      have hlen' : (view s').length ≤ n := by
        rw [hv] at hlen
        simp at hlen
        omega
      obtain ⟨out, s'', hout, hall, hnone⟩ := ih s' hlen'
      refine ⟨x :: out, s'', ?_, ?_, hnone⟩
      · rw [hv, hout]; simp
      · intro y hy
        cases List.mem_cons.mp hy with
        | inl h => rw [h]; exact hpx
        | inr h => exact hall y h
