#!/bin/sh
# run every seeded change against the check of its property (and extra properties where noted); /repo must be clean
cd /verif
for d in seeded/*/; do
  s=$(basename $d); p=$(echo $s | cut -c1-3)
  extra=""
  [ "$s" = "C16_a" ] && extra="C08"
  tools/run_seeded.sh $s $p $extra 2>&1 | grep -v "^UNDECIDED\|^KNOWN" | cut -c1-300
done
