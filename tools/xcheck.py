"""CPython cross-check of the pyvc encoding (DESIGN 2.6): every function of xcheck/nrel/hive/semantics.py is run natively and
symbolically on the same concrete inputs.  Symbolically means: fresh symbolic arguments constrained to the input values, the
real executor, and the solver's value of the result — so the z3 encoding of the operators is what is exercised, not Python's
own arithmetic.  usage: python3-vt tools/xcheck.py [-v]   exit 0: all agree, 1: disagreement(s)."""
import sys, os, itertools, ast, importlib.util
ROOT = os.path.dirname(os.path.dirname(os.path.abspath(__file__)))
sys.path.insert(0, ROOT)
os.environ["HIVE_REPO"] = os.path.join(ROOT, "xcheck")
import z3
from fractions import Fraction

INTS = [-7, -1, 0, 2, 5, 86400]
FLOATS = [-2.5, -0.5, 0.0, 0.5, 3.0, 7.25]
BOOLS = [False, True]
STRS = ["", "a", "b"]
TUPLES = [(), (3,), (1, 2), (5, 0, -1)]
OPTS = [None, 0, 4, -3]


def domain(ann):
    t = ast.unparse(ann)
    return {"int": INTS, "float": FLOATS, "bool": BOOLS, "str": STRS, "Tuple[int, ...]": TUPLES, "Optional[int]": OPTS}[t]


def main():
    verbose = "-v" in sys.argv
    from pyvc.repo import Repo
    from pyvc.tys import World, IntT, RealT, BoolT, StrT, SeqTy, OptTy, TupleTy
    from pyvc.exec import Exec, St, FuncV
    from pyvc.values import Sym, fresh, coerce, lift, strlit, PyvcUnsupported, Raised
    repo = Repo()
    world = World(repo)
    ex = Exec(world, None)
    from pyvc.spec import SpecRegistry
    R = SpecRegistry(); R.world = world; ex.specs = R; ex.loop_specs = {}
    ex.opaque = set()
    path = "nrel/hive/semantics.py"
    spec = importlib.util.spec_from_file_location("semantics_native", os.path.join(ROOT, "xcheck", path))
    native = importlib.util.module_from_spec(spec); spec.loader.exec_module(native)
    tymap = {"int": IntT, "float": RealT, "bool": BoolT, "str": StrT, "Tuple[int, ...]": SeqTy(IntT), "Optional[int]": OptTy(IntT)}
    bad, total, skipped = [], 0, []

    def z3val(ty, v):
        return coerce(v if not isinstance(v, tuple) else list(v), ty) if not (isinstance(v, tuple) and not v) else z3.Empty(ty.sort)

    def decode(val, model):
        """python value of an executor result under the model"""
        if val is None or isinstance(val, (bool, int, str)):
            return val
        if isinstance(val, float) or type(val).__name__ == "Fraction":
            return Fraction(val)
        if isinstance(val, (tuple, list)):
            return tuple(decode(x, model) for x in val)
        if isinstance(val, Sym):
            e = model.eval(val.e, model_completion=True)
            t = val.ty
            if t is BoolT:
                return z3.is_true(e)
            if t is IntT:
                return e.as_long()
            if t is RealT:
                return Fraction(e.numerator_as_long(), e.denominator_as_long())
            if t is StrT:
                for s_ in STRS:
                    if z3.is_true(model.eval(val.e == strlit(s_), model_completion=True)):
                        return s_
                return "<other str>"
            if isinstance(t, OptTy):
                if z3.is_true(model.eval(t.is_none(val.e), model_completion=True)):
                    return None
                return decode(Sym(t.elem, t.val(val.e)), model)
            if isinstance(t, TupleTy):
                return tuple(decode(Sym(et, t.get(val.e, i)), model) for i, et in enumerate(t.elems))
            if isinstance(t, SeqTy):
                n = model.eval(z3.Length(val.e), model_completion=True).as_long()
                return tuple(decode(Sym(t.elem, val.e[i]), model) for i in range(n))
        raise PyvcUnsupported(f"cannot decode {val!r}")

    def norm(v):
        if isinstance(v, bool) or v is None or isinstance(v, (int, str)):
            return v
        if isinstance(v, float):
            return Fraction(v)
        if isinstance(v, tuple):
            return tuple(norm(x) for x in v)
        return v

    for node in repo.modules[path].tree.body:
        if not isinstance(node, ast.FunctionDef):
            continue
        params = [(a.arg, ast.unparse(a.annotation)) for a in node.args.args]
        doms = [domain(a.annotation) for a in node.args.args]
        fv = FuncV(node, path, key=f"{path}::{node.name}")
        ex.cur_key = fv.key
        for combo in itertools.product(*doms):
            total += 1
            try:
                want = ("ret", norm(getattr(native, node.name)(*combo)))
            except Exception as e:  # noqa
                want = ("raise", type(e).__name__)
            args, st = {}, St()
            for (pn, pt), v in zip(params, combo):
                ty = tymap[pt]
                a = fresh(ty, pn)
                args[pn] = a
                st = st.assume(a.e == z3val(ty, v))
            try:
                ex._feas_cache.clear(); ex._ent_cache.clear(); ex.obligations = []
                outs = list(ex.run_function(fv, args, st))
            except PyvcUnsupported as e:
                skipped.append((node.name, combo, str(e)[:80]))
                continue
            got = []
            for o in outs:
                s = z3.Solver(); s.add(*ex.base_axioms()); s.add(*o.st.pc); s.add(*o.st.qpc)
                if s.check() != z3.sat:
                    continue
                m = s.model()
                if o.kind == "raise":
                    got.append(("raise", o.val.exc.cls))
                    continue
                try:
                    if isinstance(o.val, Sym) and o.val.ty is BoolT:
                        # a Bool result (possibly quantified): decided by the solver, both ways
                        s.push(); s.add(o.val.e); can_t = s.check() == z3.sat; s.pop()
                        s.push(); s.add(z3.Not(o.val.e)); can_f = s.check() == z3.sat; s.pop()
                        got.append(("ret", True if can_t and not can_f else False if can_f and not can_t else "UNDERCONSTRAINED"))
                        continue
                    v = decode(o.val, m)
                    if isinstance(o.val, Sym) and o.val.ty in (IntT, RealT):
                        # the value must be the only one the path condition admits
                        s.push(); s.add(o.val.e != m.eval(o.val.e, model_completion=True))
                        if s.check() == z3.sat:
                            v = "UNDERCONSTRAINED"
                        s.pop()
                    got.append(("ret", v))
                except PyvcUnsupported as e:
                    got.append(("undecodable", str(e)))

            def agree(w, g):
                if w == g:
                    return True
                if w[0] == g[0] == "ret" and isinstance(w[1], Fraction) and isinstance(g[1], (Fraction, int)) and not isinstance(g[1], bool):
                    # floats are modelled as reals (DESIGN 2.4): agreement up to rounding of the machine result
                    return abs(w[1] - g[1]) <= Fraction(1, 10 ** 9) * max(1, abs(w[1]))
                if w[0] == g[0] == "ret" and isinstance(w[1], tuple) and isinstance(g[1], tuple) and len(w[1]) == len(g[1]):
                    return all(agree(("ret", a_), ("ret", b_)) for a_, b_ in zip(w[1], g[1]))
                return False
            if len(got) != 1 or not agree(want, got[0]):
                bad.append((node.name, combo, want, got))
            elif verbose and total % 97 == 0:
                print("  ok", node.name, combo, want)
    names = sorted({b[0] for b in bad})
    for b in bad[:25]:
        print("DISAGREE", b[0], b[1], "CPython:", b[2], "pyvc:", b[3])
    sk = sorted({(s[0], s[2]) for s in skipped})
    for s in sk:
        print("SKIPPED (outside the supported subset)", s[0], "-", s[1])
    print(f"xcheck: {total} concrete cases over {len([n for n in repo.modules[path].tree.body if isinstance(n, ast.FunctionDef)])} functions, "
          f"{len(bad)} disagreements ({', '.join(names) or 'none'}), {len(skipped)} cases skipped")
    return 1 if bad else 0


if __name__ == "__main__":
    sys.exit(main())
