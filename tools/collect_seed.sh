#!/bin/sh
# tools/collect_seed.sh <Cxx> <suffix> [worktree prefix]: copy an agent's deliverables into /verif/seeded/<Cxx>_<suffix>
id=$1; suf=$2; pre=${3:-/tmp/wt_}; d=/verif/seeded/${id}_$suf; mkdir -p $d
cp $pre$id/patch.diff $d/ && cp $pre$id/demo_$id.py $d/ && cp $pre$id/NOTES.md $d/ && echo collected $d
