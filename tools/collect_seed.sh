#!/bin/sh
# tools/collect_seed.sh <Cxx> <suffix>: copy an agent's deliverables into /verif/seeded/<Cxx>_<suffix>
id=$1; suf=$2; d=/verif/seeded/${id}_$suf; mkdir -p $d
cp /tmp/wt_$id/patch.diff $d/ && cp /tmp/wt_$id/demo_$id.py $d/ && cp /tmp/wt_$id/NOTES.md $d/ && echo collected $d
