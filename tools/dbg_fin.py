import sys, time; sys.path.insert(0,'/verif')
import z3
from pyvc import cli, inst, verify, finite
repo, world, ex, R = cli.load()
ex.opaque = {k for k, s in R.specs.items() if getattr(s, "opaque", False)}
key=[k for k in R.specs if sys.argv[1] in k][0]
clause=sys.argv[2]; pathn=sys.argv[3]
orig=verify.solve
cnt=[0]
def dbg(hyps, goal, axioms=(), timeout_ms=10000, want_model=True):
    r=orig(hyps,goal,axioms,timeout_ms,want_model)
    if r[0]=='unknown':
        for n in (2,3):
            t=time.time()
            try:
                fr=finite.finite_refute(hyps,goal,axioms,sizes=(n,),timeout_ms=60000)
            except Exception as e:
                import traceback; traceback.print_exc(); fr=None
            print('finite',n,'->',None if fr is None else 'SAT', round(time.time()-t,1))
            if fr: print(fr[0][:3000]); break
    return r
verify.solve=dbg
spec=R.specs[key]
spec.post=[c for c in spec.post if c.name==clause]
rep=verify.verify_function(ex,key,10000)
print(rep.status, rep.detail[:500], [(x.oid, x.status) for x in rep.results if x.status!='proved'])
