#!/bin/sh
# usage: tools/run_seeded.sh <seed dir name> <prop ...>   apply the seeded change to /repo, run checks, undo
d=/verif/seeded/$1; shift
cd /repo || exit 1
git diff --quiet || { echo "/repo not clean"; exit 1; }
git apply $d/patch.diff || exit 1
for p in "$@"; do
  (cd /verif && ./check $p > /tmp/seed_out.txt 2>&1; echo "[$p] rc=$? $(grep -c '^VIOLATION' /tmp/seed_out.txt) violation lines; $(tail -1 /tmp/seed_out.txt)"; grep '^VIOLATION\|^UNDECIDED\|^CHECKER' /tmp/seed_out.txt | head -5)
done
git checkout -- .
