#!/bin/sh
# usage: tools/run_seeded.sh <seed dir name> <prop ...>   apply the seeded change to /repo, run checks, undo.
# The evidence files of the checked properties are saved first and restored afterwards: evidence/ must always describe the
# unchanged tree (a run against a seeded change would otherwise leave a `violation` evidence file behind).
d=/verif/seeded/$1; shift
cd /repo || exit 1
git diff --quiet || { echo "/repo not clean"; exit 1; }
keep=$(mktemp -d)
for p in "$@"; do cp /verif/evidence/$p.json $keep/ 2>/dev/null; done
undo() { cd /repo && git checkout -- .; for p in "$@"; do [ -f $keep/$p.json ] && cp $keep/$p.json /verif/evidence/$p.json; done; rm -rf $keep; }
trap 'undo "$@"; exit 130' INT TERM
git apply $d/patch.diff || { undo "$@"; exit 1; }
for p in "$@"; do
  (cd /verif && ./check $p > /tmp/seed_out.txt 2>&1; echo "[$p] rc=$? $(grep -c '^VIOLATION' /tmp/seed_out.txt) violation lines; $(tail -1 /tmp/seed_out.txt)"; grep '^VIOLATION\|^UNDECIDED\|^CHECKER' /tmp/seed_out.txt | head -5)
done
undo "$@"
