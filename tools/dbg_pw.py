import sys, time; sys.path.insert(0,'/verif')
import z3
from pyvc import cli, inst, verify
from pyvc.values import has_quant
repo, world, ex, R = cli.load()
ex.opaque = {k for k, s in R.specs.items() if getattr(s, "opaque", False)}
key=[k for k in R.specs if sys.argv[1] in k][0]
clause=sys.argv[2]
orig=verify.solve
def dbg(hyps, goal, axioms=(), timeout_ms=10000, want_model=True):
    qf=[h for h in hyps if not has_quant(h)]; qh=[h for h in hyps if has_quant(h)]
    if has_quant(goal) and dbg.on:
        for g in inst.skolemize_goal(goal):
            neg=z3.Not(g); base=list(axioms)+qf+[neg]
            for md,tmo in inst.LEVELS:
                s=z3.Solver(); s.set('timeout',5000)
                ins=inst.instantiate(qh,base,maxdepth=md)
                s.add(*base); s.add(*ins)
                t=time.time(); r=s.check()
                print('  level',md,len(ins),r,round(time.time()-t,2))
                if r==z3.unsat: break
            else:
                print('FAILED goal:', str(g)[:1500])
    return orig(hyps,goal,axioms,timeout_ms,want_model)
dbg.on=True
verify.solve=dbg
spec=R.specs[key]
spec.post=[c for c in spec.post if c.name==clause]
rep=verify.verify_function(ex,key,10000)
print(rep.status, rep.detail[:500])
