import sys, time; sys.path.insert(0, '/verif')
from pyvc.repo import Repo
from pyvc.tys import World
from pyvc.exec import Exec
from pyvc.spec import SpecRegistry
from pyvc.verify import verify_function
import contracts.leaf_station as ls
r = Repo(); w = World(r); R = SpecRegistry(); R.world = w
ls.register(R)
ex = Exec(w, R)
t0=time.time()
for key in R.specs:
    rep = verify_function(ex, key)
    print(key.split('::')[1], rep.status, 'paths', rep.paths, 'raise', rep.raise_paths, [ (x.oid.split('.')[-2]+'.'+x.oid.split('.')[-1], x.status) for x in rep.results if x.status!='proved'], rep.detail[:300], f"{rep.secs:.2f}s")
print(time.time()-t0)
