import sys, time; sys.path.insert(0,'/verif')
import z3
from pyvc import cli, inst, verify
repo, world, ex, R = cli.load()
ex.opaque = {k for k, s in R.specs.items() if getattr(s, "opaque", False)}
key=sorted([k for k in R.specs if sys.argv[1] in k], key=len)[0]
pat=sys.argv[2]
orig=verify.solve
def dbg(hyps, goal, axioms=(), timeout_ms=10000, want_model=True):
    if pat in str(goal)[:300]:
        print("GOAL", str(goal)[:300])
        for h in hyps:
            sh=str(h)
            if pat.split('(')[0] in sh: print("  HYP", sh[:600].replace('\n',' '))
        print('----')
    return ('proved','dbg',0.0,None,None)
verify.solve=dbg
spec=R.specs[key]; spec.post=[]
rep=verify.verify_function(ex,key,10000)
print(rep.status, rep.detail[:300])
