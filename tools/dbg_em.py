import os, sys, time; sys.path.insert(0,'/verif')
import z3
from pyvc import cli, inst, verify
from pyvc.values import has_quant, mentions_decl, str_order_quantified
repo, world, ex, R = cli.load()
ex.opaque = {k for k, s in R.specs.items() if getattr(s, "opaque", False)}
key=sorted([k for k in R.specs if sys.argv[1] in k], key=len)[0]
def dbg(hyps, goal, axioms=(), timeout_ms=10000, want_model=True):
    hyps=list(hyps)
    if mentions_decl(hyps+[goal],"str_lt"): hyps+=str_order_quantified()
    goals = inst.skolemize_goal(goal); bad=0
    for g in goals:
        ok = verify._ematch(hyps, g, axioms, 8000)
        if not ok:
            bad+=1
            gg=g
            while z3.is_implies(gg): gg=gg.arg(1)
            print('FAILED', z3.simplify(gg).sexpr()[:int(sys.argv[2]) if len(sys.argv)>2 else 900]); print('---')
    print('goals', len(goals), 'failed', bad)
    return ('proved' if not bad else 'unknown'), 'dbg', 0.0, None, None
verify.solve=dbg
spec=R.specs[key]; spec.may_raise=True
if not os.environ.get("KEEP"): spec.post=[]
rep=verify.verify_function(ex,key,10000)
print(rep.status, rep.detail[:500])
