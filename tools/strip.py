#!/usr/bin/env python3
"""print python sources without docstrings (reading aid)"""
import sys,ast
for p in sys.argv[1:]:
    src=open(p).read()
    t=ast.parse(src)
    for n in ast.walk(t):
        if isinstance(n,(ast.FunctionDef,ast.ClassDef,ast.Module)) and n.body and isinstance(n.body[0],ast.Expr) and isinstance(n.body[0].value,ast.Constant) and isinstance(n.body[0].value.value,str):
            n.body=n.body[1:] or [ast.Pass()]
    t.body=[s for s in t.body if not isinstance(s,(ast.Import,ast.ImportFrom))]
    print("#### ",p); print(ast.unparse(t))
