"""dev helper: print hypotheses and goal of the obligations of a function whose id contains a pattern
usage: dbg_ob.py <fn substring> <obligation id substring> [n]"""
import sys, time; sys.path.insert(0,'/verif')
import z3
from pyvc import cli, inst, verify
repo, world, ex, R = cli.load()
ex.opaque = {k for k, s in R.specs.items() if getattr(s, "opaque", False)}
key=sorted([k for k in R.specs if sys.argv[1] in k], key=len)[0]
pat=sys.argv[2]
cnt=[0]
def dbg(hyps, goal, axioms=(), timeout_ms=10000, want_model=True):
    cnt[0]+=1
    print("=== solve call", cnt[0])
    for h in hyps: print("  HYP", str(h)[:1500].replace('\n',' '))
    print("  GOAL", str(goal)[:3000].replace('\n', ' '))
    return ('proved','dbg',0.0,None,None)
verify.solve=dbg
rep=verify.verify_function(ex,key,10000)
for i,r in enumerate(rep.results): print(i+1, r.oid)
