"""dev helper: verify the specs whose key contains any of the given substrings"""
import sys, time, os; sys.path.insert(0, os.path.dirname(os.path.dirname(os.path.abspath(__file__))))
from pyvc import cli
from pyvc.verify import verify_function
repo, world, ex, R = cli.load()
ex.opaque = {k for k, s in R.specs.items() if getattr(s, "opaque", False)}
verbose = '-v' in sys.argv
only = [a for a in sys.argv[1:] if not a.startswith('-')]
t0 = time.time()
for key in R.specs:
    if only and not any(o in key for o in only): continue
    if R.specs[key].trusted: continue
    ex._feas_cache.clear(); ex._ent_cache.clear()
    rep = verify_function(ex, key, 10000)
    bad = [(x.oid.split('::')[1], x.status, x.backend, x.detail[:100]) for x in rep.results if x.status != 'proved']
    if verbose:
        for x in rep.results: print('   ', x.oid.split('::')[1], x.status, x.backend, round(x.secs, 2))
    print(key.split('::')[1], rep.status, 'paths', rep.paths, 'raise', rep.raise_paths, 'obl', len(rep.results), bad, rep.detail[:700], f"{rep.secs:.2f}s")
    if '-m' in sys.argv:
        for x in rep.results:
            if x.status == 'refuted': print(x.model[:3000]); break
print(round(time.time() - t0, 1), 's')
