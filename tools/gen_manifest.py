#!/usr/bin/env python3
"""regenerate MANIFEST.json from props/*.py (claimed) and properties.jsonl (everything else -> not_applicable)"""
import json, os, importlib, sys
ROOT = os.path.dirname(os.path.dirname(os.path.abspath(__file__)))
sys.path.insert(0, ROOT)
props = [json.loads(l) for l in open(os.path.join(ROOT, "properties.jsonl"))]
checks, na = [], []
for p in props:
    pid = p["id"]
    try:
        m = importlib.import_module(f"props.{pid}")
        info = m.INFO
    except ModuleNotFoundError:
        info = None
    if info is None or not info.get("claimed", True):
        na.append({"property_id": pid, "reason": (info or {}).get("na_reason", "check not built yet in this round (contract layer pending); see DESIGN.md §4")})
        continue
    checks.append({
        "property_id": pid,
        "quick_cmd": f"./check {pid} --tier quick",
        "thorough_cmd": f"./check {pid} --tier thorough",
        "evidence_file": f"/verif/evidence/{pid}.json",
        "replay_cmd_template": "./check replay {path}",
        "engine": "pyvc",
        "level_claimed": {"category": info.get("level", "proof"), "text": info["level_text"], "design_ref": info.get("design_ref", "DESIGN.md §4 " + pid)},
        "level_note": info["level_note"],
        "technique": info.get("technique", "contract-based deductive verification: VCs generated from the real Python AST (pyvc), discharged by z3/cvc5"),
    })
man = {
    "version": 1,
    "setup_cmd": "python3-vt -c \"import z3, sys; sys.path.insert(0, '.'); import pyvc.cli\" && mkdir -p evidence replays",
    "hooks": {"guard": "NREL_HIVE_VERIF", "enable": "none needed: contracts are sidecars under /verif/contracts, the verifier reads /repo source text",
              "baseline_off_cmd": "cd /repo && /venv/bin/python -m pytest -ra -q -p no:cacheprovider --timeout=900 --continue-on-collection-errors",
              "source_commits": [], "add_only": True},
    "engines": [{"name": "pyvc", "path": "/verif/pyvc", "serves_properties": [c["property_id"] for c in checks],
                 "kind_free_text": "VC generator: symbolic execution of the real Python AST of /repo against sidecar contracts; z3 (pointwise instantiation, finite-universe refutation) with cvc5 as second solver"}],
    "checks": checks,
    "not_applicable": na,
    "notes": "exit codes: 0 held / 1 violation / 2 undecided / 3 checker error. known findings: /verif/known_findings.json",
}
json.dump(man, open(os.path.join(ROOT, "MANIFEST.json"), "w"), indent=1)
print(len(checks), "claimed;", len(na), "not_applicable")
