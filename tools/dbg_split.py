import os, sys, time; sys.path.insert(0,'/verif')
import z3
from pyvc import cli, inst, verify
from pyvc.values import has_quant
repo, world, ex, R = cli.load()
ex.opaque = {k for k, s in R.specs.items() if getattr(s, "opaque", False)}
key=sorted([k for k in R.specs if sys.argv[1] in k], key=len)[0]
clause=sys.argv[2]
orig=verify.solve
def dbg(hyps, goal, axioms=(), timeout_ms=10000, want_model=True):
    qf=[h for h in hyps if not has_quant(h)]; qh=[h for h in hyps if has_quant(h)]
    goals = inst.skolemize_goal(goal)
    bad=0
    for g in goals:
        t=time.time()
        r = inst.pointwise_check(qf, qh, g, axioms, 20000, rounds=int(os.environ.get("ROUNDS","1")))
        if r!='unsat':
            bad+=1
            gg=g
            while z3.is_implies(gg): gg=gg.arg(1)
            print('CONSEQ', z3.simplify(gg).sexpr()[:1500])
            print('FAILED conjunct', round(time.time()-t,1), '...', str(g)[-(int(sys.argv[3]) if len(sys.argv)>3 else 800):]); print('-----')
    print('goals', len(goals), 'failed', bad, 'nhyps', len(qf), len(qh))
    return ('proved' if not bad else 'unknown'), 'dbg', 0.0, None, None
verify.solve=dbg
spec=R.specs[key]
spec.post=[c for c in spec.post if c.name==clause]
spec.may_raise=True
rep=verify.verify_function(ex,key,10000)
print(rep.status, rep.detail[:500])
