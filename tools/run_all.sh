#!/bin/sh
# run every claimed check (optionally recording baselines): tools/run_all.sh [--record-baseline]
cd /verif
for p in C01 C02 C03 C04 C05 C06 C07 C08 C09 C10 C11 C12 C13 C14 C15 C16 C17 C18 C19 C20; do
  ./check $p "$@" > /tmp/all_$p.txt 2>&1; echo "$p rc=$? $(tail -1 /tmp/all_$p.txt)"; grep "^UNDEC\|^VIOL\|^CHECKER\|^KNOWN" /tmp/all_$p.txt | head -4
done
