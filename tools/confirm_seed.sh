#!/bin/sh
# tools/confirm_seed.sh <seed dir> : confirm in a scratch worktree that the patch keeps the test suite unchanged and flips the demo
d=/verif/seeded/$1
wt=/tmp/confirm_$1
cd /repo && git worktree add -q --detach $wt HEAD || exit 1
cd $wt
demo=$(ls $d/demo_*.py | head -1)
cp $demo $wt/
base=$(PYTHONPATH=$wt /venv/bin/python $(basename $demo) >/dev/null 2>&1; echo $?)
git apply $d/patch.diff || { echo "patch does not apply"; cd /repo; git worktree remove --force $wt; exit 1; }
PYTHONPATH=$wt /venv/bin/python -m pytest -q -p no:cacheprovider --timeout=900 2>&1 | grep -E "^FAILED|passed|failed" | sed 's/ - .*//' | sort > /tmp/confirm_tests_$1.txt
with=$(PYTHONPATH=$wt /venv/bin/python $(basename $demo) >/dev/null 2>&1; echo $?)
summary=$(grep -E "passed|failed" /tmp/confirm_tests_$1.txt | tail -1)
nfail=$(grep -c "^FAILED" /tmp/confirm_tests_$1.txt)
cd /repo && git worktree remove --force $wt
echo "$1: demo exit without patch=$base with patch=$with; tests: $summary ($nfail failing)"
