import sys, time; sys.path.insert(0, '/verif')
from pyvc.repo import Repo
from pyvc.tys import World
from pyvc.exec import Exec
from pyvc.spec import SpecRegistry
from pyvc.verify import verify_function
import contracts.simstate as ss, contracts.common as cm
r = Repo(); w = World(r); R = SpecRegistry(); R.world = w
ex = Exec(w, R); cm.bind_ufs(ex)
ss.register(R)
t0=time.time()
only = [a for a in sys.argv[1:] if a!='-v']
for key in R.specs:
    if only and not any(o in key for o in only): continue
    rep = verify_function(ex, key)
    if '-v' in sys.argv:
        for x in rep.results: print('   ', x.oid.split('::')[1], x.status, x.backend, round(x.secs,2))
    print(key.split('::')[1], rep.status, 'paths', rep.paths, 'raise', rep.raise_paths, [ (x.oid.split('::')[1], x.status, x.detail[:80]) for x in rep.results if x.status!='proved'], rep.detail[:600], f"{rep.secs:.2f}s")
print(time.time()-t0)
